# -*- coding: utf-8 -*-
"""
Shared generators.

Part 1: seeded-RNG realisers used by the quotient enumerators: effective assignment -> one random
        spelling (field order, explicit/implicit Not Defined, base vs Modified metric, noise).
Part 2: Hypothesis strategies: valid vectors in any spelling, near-vectors, texts, answer scripts.
Construction only; no filtering.
"""
from __future__ import unicode_literals

import random

from . import spec

# ==================================================================================================
# Part 1: RNG realisers
# ==================================================================================================
B3 = ("AV", "AC", "PR", "UI", "S", "C", "I", "A")
B4 = ("AV", "AC", "AT", "PR", "UI", "VC", "VI", "VA", "SC", "SI", "SA")
DEF3 = {"E": "H", "RL": "U", "RC": "C", "CR": "M", "IR": "M", "AR": "M"}
DEF4 = {"CR": "H", "IR": "H", "AR": "H", "E": "A"}
DEF2 = {"E": "H", "RL": "U", "RC": "C", "CDP": "N", "TD": "H", "CR": "M", "IR": "M", "AR": "M"}


def _emit(rng, prefix, fields, shuffle=True):
    if shuffle:
        rng.shuffle(fields)
    return prefix + "/".join(fields)


def realise3(rng, minor, base, modified, opt, shuffle=True):
    """
    base: dict of the 8 base metrics; modified: dict base-metric -> effective modified value;
    opt: dict E,RL,RC,CR,IR,AR -> effective value (never X).
    """
    f = []
    for k in B3:
        f.append("%s:%s" % (k, base[k]))
        mv = modified[k]
        if mv == base[k]:
            r = rng.randrange(3)
            if r == 1:
                f.append("M%s:X" % k)
            elif r == 2:
                f.append("M%s:%s" % (k, mv))
        else:
            f.append("M%s:%s" % (k, mv))
    for k in ("E", "RL", "RC", "CR", "IR", "AR"):
        v = opt[k]
        if v == DEF3[k]:
            r = rng.randrange(3)
            if r == 1:
                f.append("%s:X" % k)
            elif r == 2:
                f.append("%s:%s" % (k, v))
        else:
            f.append("%s:%s" % (k, v))
    return _emit(rng, "CVSS:3.%d/" % minor, f, shuffle)


SUPP_VALUES = dict((m, spec.V4[m]) for m in spec.SUPPLEMENTAL4)


def realise4(rng, eff, shuffle=True, noise=True):
    """eff: the 15 effective values (SI/SA may be 'S'); -> one spelling"""
    f = []
    for k in B4:
        ev = eff[k]
        legal = spec.V4[k]
        if ev in legal and rng.random() < 0.5:
            bv = ev
        else:
            bv = rng.choice([x for x in legal if x != ev] or list(legal))
        f.append("%s:%s" % (k, bv))
        if bv == ev:
            r = rng.randrange(3)
            if r == 1:
                f.append("M%s:X" % k)
            elif r == 2:
                f.append("M%s:%s" % (k, ev))
        else:
            f.append("M%s:%s" % (k, ev))
    for k in ("CR", "IR", "AR", "E"):
        v = eff[k]
        if v == DEF4[k]:
            r = rng.randrange(3)
            if r == 1:
                f.append("%s:X" % k)
            elif r == 2:
                f.append("%s:%s" % (k, v))
        else:
            f.append("%s:%s" % (k, v))
    if noise:
        for k in spec.SUPPLEMENTAL4:
            if rng.random() < 0.25:
                f.append("%s:%s" % (k, rng.choice(SUPP_VALUES[k])))
    return _emit(rng, "CVSS:4.0/", f, shuffle)


def _group2(rng, names, values):
    """values: tuple of effective values or None (group undefined) -> list of fields"""
    f = []
    if values is None:
        for k in names:
            if rng.random() < 0.5:
                f.append("%s:ND" % k)
        return f
    choice = []
    for k, v in zip(names, values):
        if v == DEF2[k]:
            choice.append(rng.randrange(3))   # 0 omit, 1 ND, 2 explicit
        else:
            choice.append(2)
    if all(c != 2 for c in choice):
        choice[rng.randrange(len(choice))] = 2   # keep the group defined
    for k, v, c in zip(names, values, choice):
        if c == 1:
            f.append("%s:ND" % k)
        elif c == 2:
            f.append("%s:%s" % (k, v))
    return f


def realise2(rng, base, temporal, env, shuffle=True):
    """base: 6-tuple; temporal: 3-tuple of effective values or None; env: 5-tuple or None"""
    f = ["%s:%s" % kv for kv in zip(("AV", "AC", "Au", "C", "I", "A"), base)]
    f += _group2(rng, ("E", "RL", "RC"), temporal)
    f += _group2(rng, ("CDP", "TD", "CR", "IR", "AR"), env)
    return _emit(rng, "", f, shuffle)


def rng_vector(rng, ver, p_opt=0.5, shuffle=True, prefix=None):
    """a random valid vector (uniform values; optional metrics present with p_opt)"""
    V = spec.VERS[ver]
    f = []
    for m, vals in V.table.items():
        if m in V.mandatory or rng.random() < p_opt:
            f.append("%s:%s" % (m, rng.choice(vals)))
    if shuffle:
        rng.shuffle(f)
    return (prefix if prefix is not None else rng.choice(V.prefixes)) + "/".join(f)


# ==================================================================================================
# Part 2: Hypothesis strategies
# ==================================================================================================

def _st():
    from hypothesis import strategies as st
    return st


def assignment(ver):
    """strategy: dict metric->value; optional metrics absent half of the time; ND may be written"""
    st = _st()
    V = spec.VERS[ver]
    parts = []
    for m, vals in V.table.items():
        if m in V.mandatory:
            parts.append(st.sampled_from(vals))
        else:
            parts.append(st.sampled_from((None,) * len(vals) + tuple(vals)))   # None first: shrinks to "omitted"
    keys = list(V.table)
    return st.tuples(*parts).map(lambda t: dict((k, v) for k, v in zip(keys, t) if v is not None))


GROUP_MODES = ("absent", "all-nd", "nd-mixed", "partial", "full", "mirror", "mirror-only")


def assignment_grouped(ver):
    """
    strategy: like assignment(), but every optional GROUP (temporal/threat, environmental, supplemental)
    draws a mode first: absent (no metric of the group written), all-nd (every metric written as Not
    Defined), nd-mixed (absent or Not Defined), partial (anything), full (every metric a defined value), mirror / mirror-only
    (Modified metrics copy their base metrics).
    Whole-group shapes are what 'is this group used at all' shortcuts key on.
    """
    st = _st()
    V = spec.VERS[ver]
    parts = [st.sampled_from(V.table[m]) for m in V.mandatory]
    gnames = list(V.groups)
    layout = []
    for g in gnames:
        ms = V.groups[g]
        layout.append((g, ms))
        parts.append(st.sampled_from(GROUP_MODES))
        for m in ms:
            vals = V.table[m]
            defined = tuple(x for x in vals if x != V.nd)
            parts.append(st.tuples(st.booleans(), st.sampled_from((None,) * len(vals) + tuple(vals)), st.sampled_from(defined)))
    nmand = len(V.mandatory)

    def build(t):
        d = dict(zip(V.mandatory, t[:nmand]))
        i = nmand
        for g, ms in layout:
            mode = t[i]
            i += 1
            for m in ms:
                flag, anyv, defv = t[i]
                i += 1
                if mode == "absent":
                    continue
                if mode == "all-nd":
                    d[m] = V.nd
                elif mode == "nd-mixed":
                    if flag:
                        d[m] = V.nd
                elif mode == "partial":
                    if anyv is not None:
                        d[m] = anyv
                elif mode in ("mirror", "mirror-only"):
                    # every Modified metric written as a plain copy of its base metric (some calculators always append that block);
                    # the metrics without a base counterpart: defined ('mirror') or left out ('mirror-only')
                    base = spec.MODIFIED.get(ver, {}).get(m)
                    if base is not None and d.get(base) in V.table[m]:
                        d[m] = d[base]
                    elif mode == "mirror":
                        d[m] = defv
                else:
                    d[m] = defv
        return d
    return st.tuples(*parts).map(build)


def prefix_of(ver):
    st = _st()
    return st.sampled_from(spec.VERS[ver].prefixes)


def order_seed():
    """0 = official order; 1..7 = a systematic order (what a tool keeping metrics in a sorted, reversed or grouped mapping writes);
    otherwise the seed of a shuffle (a pure function of the drawn integer)"""
    st = _st()
    return st.one_of(st.just(0), st.integers(1, 7), st.integers(8, 2 ** 32 - 1), st.integers(8, 2 ** 32 - 1))


def ordered(keys, official, oseed):
    ks = [k for k in official if k in keys]
    if oseed == 1:
        ks.sort()                                   # alphabetical
    elif oseed == 2:
        ks.sort(reverse=True)
    elif oseed == 3:
        ks.reverse()                                # official order backwards
    elif oseed == 4:
        ks.sort(key=lambda k: (len(k), k))          # short names first
    elif oseed == 5:
        ks.sort(key=lambda k: k.lower()[::-1])      # by last letter
    elif oseed == 6:
        ks = ks[1:] + ks[:1]                        # official order rotated by one
    elif oseed == 7:
        ks = ks[-1:] + ks[:-1]
    elif oseed:
        random.Random(oseed).shuffle(ks)
    return ks


def valid_parts(ver):
    """strategy -> (prefix, metrics dict, order list)"""
    st = _st()
    V = spec.VERS[ver]
    return st.tuples(prefix_of(ver), st.one_of(assignment(ver), assignment_grouped(ver)), order_seed()).map(
        lambda t: (t[0], t[1], ordered(set(t[1]), V.order, t[2])))


def valid(ver):
    from . import ref
    return valid_parts(ver).map(lambda t: ref.build(t[0], t[1], t[2]))


def version_key():
    return _st().sampled_from(spec.VKEYS)


ALPHABET = "/:.XNLHAVCPRUISMTEDGFOWYBQZacdeilmnrsux0123456789 \n\t-_,;é☃{}%\\$\"'"      # incl. format-string metacharacters
# lone surrogates are ordinary str values too (json.loads of a truncated pair, os.fsdecode of undecodable bytes): no codec encodes them
ALPHABET += "\ud800\udbff\udc00\udc7f\udc80\udcff\udfff\ud83d"
_CONF = None


def confusables():
    """ASCII char -> non-ASCII code points that Unicode-aware operations (NFKC, case mapping, int(), \\d ...) turn
    into it (pinned table, tools/mkconfusables.py); both letter cases of a letter share their lists"""
    global _CONF
    if _CONF is None:
        import json
        import os
        with open(os.path.join(spec.DATA, "confusables.json")) as f:
            raw = json.load(f)
        conf = {}
        for a, lst in raw.items():
            for b in set((a, a.upper(), a.lower())):
                conf.setdefault(b, [])
                for c in lst:
                    if c not in conf[b]:
                        conf[b].append(c)
        _CONF = conf
    return _CONF
EDIT_ALPHABET = "/:.XNLHAVCPRUISMTEDGFOWYaclmrsux0134 \n-é"   # 40 + for complete one-edit balls


def mutated(ver, max_edits=3):
    """strategy: a string within a few edits of a valid vector (may still be valid)"""
    st = _st()

    @st.composite
    def s(draw):
        v = draw(valid(ver))
        ops = []
        n = draw(st.integers(1, max_edits))
        for _ in range(n):
            op = draw(st.sampled_from(OPS))
            v2 = apply_op(draw, ver, v, op)
            ops.append(op)
            v = v2
        return v, tuple(ops)
    return s()


OPS = ("ins", "del", "rep", "confusable", "encoded", "lengthen", "tree_constant", "drop_field", "drop_mandatory", "dup_field", "dup_field_other_value", "swap_fields",
       "transplant", "empty_field", "surgery", "case", "value_of_other_metric", "strip_value", "extra_colon")


def apply_op(draw, ver, s, op):
    st = _st()
    V = spec.VERS[ver]
    if op == "ins":
        i = draw(st.integers(0, len(s)))
        return s[:i] + draw(st.sampled_from(ALPHABET)) + s[i:]
    if op == "del":
        if not s:
            return s
        i = draw(st.integers(0, len(s) - 1))
        return s[:i] + s[i + 1:]
    if op == "rep":
        if not s:
            return s
        i = draw(st.integers(0, len(s) - 1))
        return s[:i] + draw(st.sampled_from(ALPHABET)) + s[i + 1:]
    if op == "encoded":
        # one or all occurrences of a character written in some ENCODING of it (URL, HTML, backslash, quoted-printable ...):
        # what a decoder in front of the parser would turn back into a valid vector
        if not s:
            return s
        i = draw(st.integers(0, len(s) - 1))
        c = s[i]
        enc = draw(st.sampled_from(encodings(c)))
        if draw(st.integers(0, 3)) == 0:
            return s.replace(c, enc)
        return s[:i] + enc + s[i + 1:]
    if op == "lengthen":
        return lengthen(draw, ver, s)
    if op == "tree_constant":
        # a constant of the source tree as the string, around it, as a field, as a metric or as a value
        c = draw(st.sampled_from(tree_constants()))
        c = draw(st.sampled_from((c, c.lower(), c.upper())))
        fs = s.split("/")
        j = draw(st.integers(0, len(fs) - 1))
        m, _, v = fs[j].partition(":")
        return draw(st.sampled_from((c, s + c, c + s, s + "/" + c, c + "/" + s, s + " " + c, "/".join(fs[:j] + [c] + fs[j + 1:]),
                                     "/".join(fs[:j] + [m + ":" + c] + fs[j + 1:]), "/".join(fs[:j] + [c + ":" + v] + fs[j + 1:]),
                                     "/".join(fs[:j] + [c] + fs[j:]), "/".join(fs[:j] + [fs[j] + c] + fs[j + 1:]))))
    if op == "confusable":
        conf = confusables()
        idx = [i for i, ch in enumerate(s) if ch in conf]
        if not idx:
            return s
        i = draw(st.sampled_from(idx))
        return s[:i] + draw(st.sampled_from(conf[s[i]])) + s[i + 1:]
    fs = s.split("/")
    if op == "drop_field":
        j = draw(st.integers(0, len(fs) - 1))
        del fs[j]
    elif op == "drop_mandatory":
        k = draw(st.integers(1, 3))
        for _ in range(k):
            idx = [i for i, f in enumerate(fs) if f.split(":")[0] in V.mandatory]
            if idx:
                del fs[draw(st.sampled_from(idx))]
    elif op == "dup_field":
        j = draw(st.integers(0, len(fs) - 1))
        fs.insert(draw(st.integers(0, len(fs))), fs[j])
    elif op == "dup_field_other_value":
        j = draw(st.integers(0, len(fs) - 1))
        m = fs[j].split(":")[0]
        if m in V.table:
            fs.insert(draw(st.integers(0, len(fs))), m + ":" + draw(st.sampled_from(V.table[m])))
    elif op == "swap_fields":
        if len(fs) >= 2:
            i = draw(st.integers(0, len(fs) - 1))
            j = draw(st.integers(0, len(fs) - 1))
            fs[i], fs[j] = fs[j], fs[i]
    elif op == "transplant":
        other = draw(st.sampled_from(spec.VKEYS))
        O = spec.VERS[other]
        m = draw(st.sampled_from(O.order))
        fs.insert(draw(st.integers(0, len(fs))), m + ":" + draw(st.sampled_from(O.table[m])))
    elif op == "empty_field":
        fs.insert(draw(st.integers(0, len(fs))), "")
    elif op == "surgery":
        return draw(st.sampled_from([
            s.lower(), s.upper(), s + "/", "/" + s, " " + s, s + " ", s + "\n", "\t" + s,
            s.replace("CVSS:3.", "CVSS:3.2", 1), s.replace("CVSS:3.1", "CVSS:3.2"), s.replace("CVSS", "cvss", 1),
            s.replace("CVSS:4.0", "CVSS:4.1"), s.replace("CVSS:4.0/", "CVSS:3.1/"), s.replace("CVSS:3.1/", "CVSS:4.0/"),
            s.replace("CVSS:3.0/", ""), s.replace("CVSS:3.1/", ""), s.replace("CVSS:4.0/", ""),
            "CVSS:3.1/" + s, "CVSS:3.0/" + s, "CVSS:4.0/" + s, s.replace("/", "//", 1), s.replace(":", "::", 1),
            s.replace("/", " /", 1), s.replace(":", ": ", 1), s.replace("/", "\\", 1), s.replace("CVSS:", "CVSS: ", 1),
            s.replace(".", ",", 1), s.replace("/", "", 1)] + [d % s for d in DECORATIONS]))
    elif op == "case":
        j = draw(st.integers(0, len(fs) - 1))
        fs[j] = draw(st.sampled_from([fs[j].lower(), fs[j].upper(), fs[j].title(), fs[j].swapcase()]))
    elif op == "value_of_other_metric":
        j = draw(st.integers(0, len(fs) - 1))
        m = fs[j].split(":")[0]
        allvals = sorted(set(v for vals in V.table.values() for v in vals) | set(["ND", "X", "", "POC", "Safety"]))
        fs[j] = m + ":" + draw(st.sampled_from(allvals))
    elif op == "strip_value":
        j = draw(st.integers(0, len(fs) - 1))
        fs[j] = draw(st.sampled_from([fs[j].split(":")[0], fs[j].split(":")[0] + ":", ":" + fs[j].split(":")[-1]]))
    elif op == "extra_colon":
        j = draw(st.integers(0, len(fs) - 1))
        fs[j] = fs[j] + ":" + draw(st.sampled_from(["", "X", "N", "H"]))
    return "/".join(fs)


LENGTHS = (12, 40, 80, 161, 300, 1000, 5000)


def lengthen(draw, ver, s):
    """
    the same kind of string, but LONG (beyond any well-formed vector: the longest has 117 / 198 characters): code that
    abbreviates, wraps, buffers or indexes by length only shows on such inputs.  Built from a handful of draws.
    """
    st = _st()
    V = spec.VERS[ver]
    k = draw(st.sampled_from(LENGTHS))
    fs = s.split("/")
    at = draw(st.integers(0, len(fs)))
    how = draw(st.sampled_from(("empty-fields", "repeat-field", "repeat-all", "unknown-fields", "long-value", "long-key", "blanks", "junk")))
    if how == "empty-fields":
        fs[at:at] = [""] * k
    elif how == "repeat-field":
        f = fs[draw(st.integers(0, len(fs) - 1))]
        fs[at:at] = [f] * (k // max(1, len(f)) + 1)
    elif how == "repeat-all":
        body = [f for f in fs if not f.startswith("CVSS:")]
        fs = fs + body * (k // max(1, len("/".join(body))) + 1)
    elif how == "unknown-fields":
        m = draw(st.sampled_from(("ZZ", "XX", "E2", V.order[0].lower())))
        fs[at:at] = [m + ":" + draw(st.sampled_from(("N", "X", "Q")))] * (k // 5 + 1)
    elif how == "long-value":
        j = draw(st.integers(0, len(fs) - 1))
        fs[j] = fs[j] + fs[j][-1:] * k
    elif how == "long-key":
        j = draw(st.integers(0, len(fs) - 1))
        fs[j] = fs[j][:1] * k + fs[j]
    elif how == "blanks":
        pad = draw(st.sampled_from((" ", "\t", "\n", "\u00a0"))) * k
        return draw(st.sampled_from((pad + s, s + pad, s.replace("/", "/" + pad, 1))))
    else:
        return s + draw(st.sampled_from(("/", " ", ""))) + draw(st.sampled_from(("A", "x:", "/:", "\u2026", "9"))) * k
    return "/".join(fs)


def lengthened(ver):
    """strategy: a valid vector or a near-miss, made long"""
    st = _st()

    @st.composite
    def s(draw):
        base = draw(valid(ver)) if draw(st.booleans()) else draw(mutated(ver, max_edits=2))[0]
        return lengthen(draw, ver, base)
    return s()


_TREE_CONSTANTS = []


def tree_constants():
    """
    short string constants that occur in the source of the tree under test (compiled, code objects walked): a generator HINT
    like a fuzzing dictionary - a word or token that some code path compares its input with has to be written down
    somewhere.  Never used by an oracle.  Deterministic (sorted).
    """
    if _TREE_CONSTANTS:
        return _TREE_CONSTANTS
    import os
    from . import runner
    found = set()

    def walk(code):
        for c in code.co_consts:
            if isinstance(c, str):
                if 1 <= len(c) <= 24 and "\n" not in c:
                    found.add(c)
                    for part in c.replace("{0}", " ").replace("%s", " ").split():
                        if 1 <= len(part) <= 24:
                            found.add(part)
            elif isinstance(c, (tuple, frozenset)):
                for x in c:
                    if isinstance(x, str) and 1 <= len(x) <= 24 and "\n" not in x:
                        found.add(x)
            elif hasattr(c, "co_consts"):
                walk(c)
    d = os.path.join(runner.REPO, "cvss")
    for name in sorted(os.listdir(d)):
        if name.endswith(".py"):
            try:
                with open(os.path.join(d, name), encoding="utf-8") as f:
                    walk(compile(f.read(), name, "exec"))
            except (OSError, SyntaxError, ValueError):
                pass
    _TREE_CONSTANTS.extend(sorted(found))
    if not _TREE_CONSTANTS:
        _TREE_CONSTANTS.append("X")
    return _TREE_CONSTANTS


NAMED_ENTITIES = {":": ("&colon;",), "/": ("&sol;", "&#x2F;"), ".": ("&period;",), "&": ("&amp;",), "<": ("&lt;",), " ": ("&nbsp;", "+", "%20")}


def encodings(c):
    """spellings of one character in common encodings"""
    o = ord(c)
    out = ["%%%02X" % o if o < 256 else "%%u%04X" % o, "%%%02x" % o if o < 256 else "%%u%04x" % o, "&#%d;" % o, "&#x%X;" % o, "&#%d" % o,
           "\\x%02x" % o if o < 256 else "\\u%04x" % o, "\\u%04x" % o, "\\%03o" % o if o < 512 else "\\u%04x" % o, "=%02X" % o if o < 256 else "=?",
           "%%25%02X" % o if o < 256 else "%%25u%04X" % o, "\\" + c, "^" + c]
    out += list(NAMED_ENTITIES.get(c, ()))
    return out


DECORATIONS = ("CVSS2#%s", "CVSS:2.0/%s", "CVSS:2/%s", "CVSSv2#%s", "CVSS3#%s", "CVSS:3/%s", "CVSS4#%s", "CVSS:4/%s", "cvss:%s", "Vector: %s", "(%s)",
               "[%s]", "\"%s\"", "'%s'", "<%s>", "`%s`", "%s.", "%s,", "%s;", "vector=%s", "%s#", "#%s", "%s?", "%s\x00", "\ufeff%s", "%s\r")


def any_text(max_size=40):
    st = _st()
    return st.text(max_size=max_size)


def rnd_of(draw):
    """a seeded random.Random drawn through Hypothesis (kept inside the library's control)"""
    st = _st()
    return random.Random(draw(st.integers(0, 2 ** 32 - 1)))


_TREE_ENV = []


def tree_env_names():
    """
    names of environment variables the tree under test may consult: identifier-like string constants of those source files that
    mention the process environment at all (environ / getenv).  A generator HINT like tree_constants(): empty for a tree that
    never looks at the environment (the pinned one), never read by an oracle.  Deterministic (sorted).
    """
    if _TREE_ENV:
        return [x for x in _TREE_ENV if x]
    import os
    import re
    from . import runner
    found = set()

    def walk(code):
        for c in code.co_consts:
            if isinstance(c, str) and re.match(r"^[A-Za-z_][A-Za-z0-9_]{1,30}$", c):
                found.add(c)
            elif isinstance(c, (tuple, frozenset)):
                for x in c:
                    if isinstance(x, str) and re.match(r"^[A-Za-z_][A-Za-z0-9_]{1,30}$", x):
                        found.add(x)
            elif hasattr(c, "co_consts"):
                walk(c)
    d = os.path.join(runner.REPO, "cvss")
    for name in sorted(os.listdir(d)):
        if name.endswith(".py"):
            try:
                with open(os.path.join(d, name), encoding="utf-8") as f:
                    src = f.read()
                if re.search(r"\benviron\b|getenv", src):
                    walk(compile(src, name, "exec"))
            except (OSError, SyntaxError, ValueError):
                pass
    upper = sorted(x for x in found if x.upper() == x)
    names = (upper or sorted(found))[:24]
    _TREE_ENV.extend(names or [""])
    return names


ENV_VALUES = ("", "1", "0", "yes", "no", "true", "x y", "-1", "99999999999999999999", "\t", "utf-8", "/nonexistent", "3.1")


# sub-groups of the optional metrics: the units a "is this part of the vector used at all" shortcut can key on
SUBGROUPS = {
    "2": (("E", "RL", "RC"), ("CDP", "TD"), ("CR", "IR", "AR")),
    "3": (("E", "RL", "RC"), ("CR", "IR", "AR"), ("MAV", "MAC", "MPR", "MUI"), ("MS",), ("MC", "MI", "MA")),
    "4": (("E",), ("CR", "IR", "AR"), ("MAV", "MAC", "MAT", "MPR", "MUI"), ("MVC", "MVI", "MVA"), ("MSC", "MSI", "MSA"), ("S", "AU", "R", "V", "RE", "U")),
}


def all_bases(ver):
    """every assignment of the mandatory metrics (v2: 729, v3: 2592 per minor version; v4: 0.1 M - sample it)"""
    import itertools
    from . import spec
    V = spec.VERS[ver]
    names = list(V.mandatory)
    for combo in itertools.product(*[list(V.table[m]) for m in names]):
        yield dict(zip(names, combo))


def rng_shape(rng, ver, group, d):
    """fill one sub-group of optional metrics in d with a random shape: absent / all Not Defined / all defined / mixed"""
    from . import spec
    V = spec.VERS[ver]
    shape = rng.choice(("absent", "nd", "defined", "mixed"))
    for m in group:
        if shape == "absent":
            continue
        vals = [x for x in V.table[m] if x != V.nd]
        if shape == "nd":
            d[m] = V.nd
        elif shape == "defined":
            d[m] = rng.choice(vals)
        else:
            c = rng.randrange(3)
            if c == 0:
                d[m] = V.nd
            elif c == 1:
                d[m] = rng.choice(vals)
    return shape
