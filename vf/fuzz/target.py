# -*- coding: utf-8 -*-
"""
atheris (libFuzzer) targets with the semantic oracle INSIDE the target.

    python -m vf.fuzz.target <accept|text> <failure-file> [libFuzzer args...]

The bytes are decoded into structured arguments (version, raw/structured mode, field picks, edits) so
that the fuzzer reaches the parser's logic; coverage feedback comes from the instrumented cvss package.
A failing input is appended to <failure-file> as one JSON line (the property check's input) and the
process aborts (libFuzzer stops at the first failure).
"""
from __future__ import unicode_literals

import json
import os
import sys

import atheris

from vf import runner

sys.path.insert(0, runner.REPO)
with atheris.instrument_imports(include=["cvss", "cvss.cvss2", "cvss.cvss3", "cvss.cvss4", "cvss.parser"]):
    import cvss  # noqa
    import cvss.parser  # noqa
runner.import_target()      # proves that cvss comes from the tree under test

from vf import spec  # noqa: E402
from vf.props import c04, c13  # noqa: E402

WHICH = sys.argv[1]
OUT = sys.argv[2]
EXECS = [0]


def pick_vector(fdp, ver):
    """structured: a vector assembled from fuzzer-chosen fields, with fuzzer-chosen damage"""
    V = spec.VERS[ver]
    order = list(V.order)
    fields = []
    n = fdp.ConsumeIntInRange(0, len(order) + 3)
    for _ in range(n):
        m = order[fdp.ConsumeIntInRange(0, len(order) - 1)]
        vals = V.table[m]
        fields.append(m + ":" + vals[fdp.ConsumeIntInRange(0, len(vals) - 1)])
    # make mandatory metrics likely
    if fdp.ConsumeBool():
        have = set(f.split(":")[0] for f in fields)
        for m in V.mandatory:
            if m not in have:
                vals = V.table[m]
                fields.append(m + ":" + vals[fdp.ConsumeIntInRange(0, len(vals) - 1)])
    prefix = V.prefixes[fdp.ConsumeIntInRange(0, len(V.prefixes) - 1)]
    s = prefix + "/".join(fields)
    # damage
    k = fdp.ConsumeIntInRange(0, 3)
    for _ in range(k):
        if not s:
            break
        i = fdp.ConsumeIntInRange(0, len(s))
        op = fdp.ConsumeIntInRange(0, 2)
        c = fdp.ConsumeUnicodeNoSurrogates(1)
        if op == 0:
            s = s[:i] + c + s[i:]
        elif op == 1:
            s = s[:i] + s[i + 1:]
        else:
            s = s[:i] + c + s[i + 1:]
    return s


def fail(check, inp, fails):
    with open(OUT, "a") as f:
        f.write(json.dumps({"check": check, "input": inp, "failures": fails}, default=repr) + "\n")
    raise RuntimeError("property violated: %s %r" % (check, inp))


def one_accept(data):
    EXECS[0] += 1
    fdp = atheris.FuzzedDataProvider(data)
    ver = spec.VKEYS[fdp.ConsumeIntInRange(0, 2)]
    if fdp.ConsumeBool():
        s = fdp.ConsumeUnicodeNoSurrogates(400)
        if fdp.ConsumeBool():
            P = spec.VERS[ver].prefixes
            s = P[len(s) % len(P)] + s
    else:
        s = pick_vector(fdp, ver)
    inp = {"ver": ver, "s": s}
    fails = c04.check_accept(inp)
    if fails:
        fail("accept", inp, fails)


def one_text(data):
    EXECS[0] += 1
    fdp = atheris.FuzzedDataProvider(data)
    chunks, planted = [], []
    n = fdp.ConsumeIntInRange(1, 5)
    for _ in range(n):
        k = fdp.ConsumeIntInRange(0, 3)
        if k == 0:
            chunks.append(fdp.ConsumeUnicodeNoSurrogates(fdp.ConsumeIntInRange(0, 60)))
        else:
            ver = "2" if k == 1 else "3"
            v = pick_vector(fdp, ver)
            chunks.append(v)
            planted.append([ver, v])
        chunks.append([" ", "", "\n", ".", "/", ":", "a", "3"][fdp.ConsumeIntInRange(0, 7)])
    inp = {"text": "".join(chunks), "planted": planted}
    fails = c13.check_text(inp)
    if fails:
        fail("text", inp, fails)


def main():
    target = {"accept": one_accept, "text": one_text}[WHICH]
    atheris.Setup([sys.argv[0]] + sys.argv[3:], target)
    atheris.Fuzz()


if __name__ == "__main__":
    main()
