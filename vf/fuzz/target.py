# -*- coding: utf-8 -*-
"""
atheris (libFuzzer) targets with the semantic oracle INSIDE the target.

    python -m vf.fuzz.target <accept|text|dialogue|cli|rh> <failure-file> [libFuzzer args...]

The bytes are decoded into structured arguments (version, raw/structured mode, field picks, edits) so
that the fuzzer reaches the parser's logic; coverage feedback comes from the instrumented cvss package.
A failing input is appended to <failure-file> as one JSON line (the property check's input) and the
process aborts (libFuzzer stops at the first failure).
"""
from __future__ import unicode_literals

import json
import os
import sys

import atheris

from vf import runner

sys.path.insert(0, runner.REPO)
with atheris.instrument_imports(include=["cvss", "cvss.cvss2", "cvss.cvss3", "cvss.cvss4", "cvss.parser", "cvss.interactive", "cvss.cvss_calculator"]):
    import cvss  # noqa
    import cvss.parser  # noqa
    import cvss.interactive  # noqa
    import cvss.cvss_calculator  # noqa
runner.import_target()      # proves that cvss comes from the tree under test

from vf import spec  # noqa: E402
from vf import interact  # noqa: E402
from vf.props import c04, c08, c12, c13, c16, c17  # noqa: E402

WHICH = sys.argv[1]
OUT = sys.argv[2]
EXECS = [0]


def pick_vector(fdp, ver):
    """structured: a vector assembled from fuzzer-chosen fields, with fuzzer-chosen damage"""
    V = spec.VERS[ver]
    order = list(V.order)
    fields = []
    n = fdp.ConsumeIntInRange(0, len(order) + 3)
    for _ in range(n):
        m = order[fdp.ConsumeIntInRange(0, len(order) - 1)]
        vals = V.table[m]
        fields.append(m + ":" + vals[fdp.ConsumeIntInRange(0, len(vals) - 1)])
    # make mandatory metrics likely
    if fdp.ConsumeBool():
        have = set(f.split(":")[0] for f in fields)
        for m in V.mandatory:
            if m not in have:
                vals = V.table[m]
                fields.append(m + ":" + vals[fdp.ConsumeIntInRange(0, len(vals) - 1)])
    prefix = V.prefixes[fdp.ConsumeIntInRange(0, len(V.prefixes) - 1)]
    s = prefix + "/".join(fields)
    # damage
    k = fdp.ConsumeIntInRange(0, 3)
    for _ in range(k):
        if not s:
            break
        i = fdp.ConsumeIntInRange(0, len(s))
        op = fdp.ConsumeIntInRange(0, 2)
        c = fdp.ConsumeUnicodeNoSurrogates(1)
        if op == 0:
            s = s[:i] + c + s[i:]
        elif op == 1:
            s = s[:i] + s[i + 1:]
        else:
            s = s[:i] + c + s[i + 1:]
    return s


KNOWN_KEYS = set(k for (_pid, k) in runner.load_known())


def unlisted(fails):
    """failures that are not listed known findings (those must not end a campaign: the search goes on behind them)"""
    return [f for f in (fails or []) if not (f.get("key") and f["key"] in KNOWN_KEYS)]


def fail(check, inp, fails):
    with open(OUT, "a") as f:
        f.write(json.dumps({"check": check, "input": inp, "failures": fails}, default=repr) + "\n")
    raise RuntimeError("property violated: %s %r" % (check, inp))


def one_accept(data):
    EXECS[0] += 1
    fdp = atheris.FuzzedDataProvider(data)
    ver = spec.VKEYS[fdp.ConsumeIntInRange(0, 2)]
    if fdp.ConsumeBool():
        s = fdp.ConsumeUnicodeNoSurrogates(400)
        if fdp.ConsumeBool():
            P = spec.VERS[ver].prefixes
            s = P[len(s) % len(P)] + s
    else:
        s = pick_vector(fdp, ver)
    inp = {"ver": ver, "s": s}
    fails = unlisted(c04.check_accept(inp))
    if fails:
        fail("accept", inp, fails)


def one_text(data):
    EXECS[0] += 1
    fdp = atheris.FuzzedDataProvider(data)
    chunks, planted = [], []
    n = fdp.ConsumeIntInRange(1, 5)
    for _ in range(n):
        k = fdp.ConsumeIntInRange(0, 3)
        if k == 0:
            chunks.append(fdp.ConsumeUnicodeNoSurrogates(fdp.ConsumeIntInRange(0, 60)))
        else:
            ver = "2" if k == 1 else "3"
            v = pick_vector(fdp, ver)
            chunks.append(v)
            planted.append([ver, v])
        chunks.append([" ", "", "\n", ".", "/", ":", "a", "3"][fdp.ConsumeIntInRange(0, 7)])
    inp = {"text": "".join(chunks), "planted": planted}
    fails = unlisted(c13.check_text(inp))
    if fails:
        fail("text", inp, fails)


from vf import gen  # noqa: E402
WORDS = sorted(set(interact.COMMAND_WORDS) | set(gen.tree_constants()))


def pick_answers(fdp, version, allm):
    """an answer script: per question a few fuzzer-written wrong-looking answers, then a legal value in some spelling; maybe cut short"""
    V = spec.VERS[interact.verkey(version)]
    order = list(V.order if allm else V.mandatory)
    answers = []
    for m in order:
        for _ in range(fdp.ConsumeIntInRange(0, 2)):
            k = fdp.ConsumeIntInRange(0, 3)
            if k == 0:
                answers.append(fdp.ConsumeUnicodeNoSurrogates(fdp.ConsumeIntInRange(0, 12)).replace("\n", " ").replace("\r", " "))
            elif k == 3:
                w = WORDS[fdp.ConsumeIntInRange(0, len(WORDS) - 1)]
                answers.append([w, w.lower(), w.upper(), " " + w][fdp.ConsumeIntInRange(0, 3)])
            elif k == 1:
                o = order[fdp.ConsumeIntInRange(0, len(order) - 1)]
                answers.append(o + [":", "=", " ", ""][fdp.ConsumeIntInRange(0, 3)] + V.table[m][fdp.ConsumeIntInRange(0, len(V.table[m]) - 1)])
            else:
                v = V.table[m][fdp.ConsumeIntInRange(0, len(V.table[m]) - 1)]
                answers.append(v + fdp.ConsumeUnicodeNoSurrogates(3).replace("\n", " ").replace("\r", " "))
        v = V.table[m][fdp.ConsumeIntInRange(0, len(V.table[m]) - 1)]
        answers.append([v, v.lower(), " " + v, v.upper() + " "][fdp.ConsumeIntInRange(0, 3)])
    if fdp.ConsumeIntInRange(0, 5) == 0 and answers:
        answers = answers[:fdp.ConsumeIntInRange(0, len(answers) - 1)]
    return answers


def one_dialogue(data):
    EXECS[0] += 1
    fdp = atheris.FuzzedDataProvider(data)
    version = interact.VERSIONS[fdp.ConsumeIntInRange(0, len(interact.VERSIONS) - 1)]
    allm = fdp.ConsumeBool()
    inp = {"version": version, "all_metrics": allm, "no_colors": fdp.ConsumeBool(), "tty": fdp.ConsumeBool(), "answers": pick_answers(fdp, version, allm)}
    fails = unlisted(c16.check_dialogue(inp))
    if fails:
        fail("dialogue", inp, fails)
    fails = unlisted(c08.check_builder(inp))
    if fails:
        fail("builder", inp, fails)


FLAGS = ["-2", "-3", "-4", "-j", "--json", "-a", "--all", "-n", "--no-colors"]


def one_cli(data):
    EXECS[0] += 1
    fdp = atheris.FuzzedDataProvider(data)
    argv = [FLAGS[fdp.ConsumeIntInRange(0, len(FLAGS) - 1)] for _ in range(fdp.ConsumeIntInRange(0, 4))]
    vers = [c17.FLAGVER[a] for a in argv if a in c17.FLAGVER] or [c17.DEFAULT]
    ver = interact.verkey(vers[0])
    stdin = None
    if fdp.ConsumeIntInRange(0, 3) == 0:
        stdin = pick_answers(fdp, vers[0], ("-a" in argv) or ("--all" in argv))
    else:
        vec = pick_vector(fdp, ver) if fdp.ConsumeBool() else fdp.ConsumeUnicodeNoSurrogates(80).replace("\x00", "")
        if vec == "--":
            vec = "--x"
        argv.append("--vector=" + vec)
    inp = {"argv": argv, "stdin": stdin}
    fails = unlisted(c17.check_cli(inp))
    if fails:
        fail("cli", inp, fails)


def one_rh(data):
    EXECS[0] += 1
    fdp = atheris.FuzzedDataProvider(data)
    ver = spec.VKEYS[fdp.ConsumeIntInRange(0, 2)]
    vec = pick_vector(fdp, ver)
    k = fdp.ConsumeIntInRange(0, 3)
    if k == 0:
        score = fdp.ConsumeUnicodeNoSurrogates(12)
    elif k == 1:
        score = "%.1f" % (fdp.ConsumeIntInRange(0, 100) / 10.0)
    else:
        from vf import ref, scorecheck
        if ref.classify(ver, vec)[0] == ref.OK:
            base = scorecheck.as_floats(scorecheck.expected_scores(ver, vec))[0]
            score = ["%.1f", "%r", "%.2f", " %.1f", "%.1f ", "+%.1f", "%.1fe0", "0%.1f"][fdp.ConsumeIntInRange(0, 7)] % base
        else:
            score = "5.0"
    inp = {"ver": ver, "text": score + ["/", "", "//", " /"][min(3, fdp.ConsumeIntInRange(0, 9))] + vec}
    fails = unlisted(c12.check_rh_parse(inp))
    if fails:
        fail("rh_parse", inp, fails)


def main():
    target = {"accept": one_accept, "text": one_text, "dialogue": one_dialogue, "cli": one_cli, "rh": one_rh}[WHICH]
    atheris.Setup([sys.argv[0]] + sys.argv[3:], target)
    atheris.Fuzz()


if __name__ == "__main__":
    main()
