# -*- coding: utf-8 -*-
"""Runs atheris campaigns (16 independent processes, half with an empty corpus, half seeded) and merges results."""
from __future__ import unicode_literals

import json
import os
import random
import re
import shutil
import subprocess
import sys
import tempfile

from .. import gen, runner, spec

TOKENS = ["/", ":", "CVSS:3.0/", "CVSS:3.1/", "CVSS:4.0/", "CVSS:", "ND", "X", "POC", "Clear", "Green", "Amber", "Red"]


def dictionary():
    toks = set(TOKENS)
    for ver in spec.VKEYS:
        V = spec.VERS[ver]
        for m, vals in V.table.items():
            toks.add(m + ":")
            for v in vals:
                toks.add("%s:%s" % (m, v))
                toks.add("/%s:%s" % (m, v))
    for c in gen.tree_constants():          # whatever the tree under test compares its input with is written down in it
        if "\x00" not in c:
            toks.add(c)
            toks.add(c.lower())
    return sorted(toks)


def campaign(part, which, runs, procs=None, only=None):
    """-> note for the evidence; failures are re-checked through the property's own check function"""
    from ..props import c04, c08, c12, c13, c16, c17
    fns = {"accept": c04.check_accept, "text": c13.check_text, "dialogue": c16.check_dialogue, "builder": c08.check_builder, "cli": c17.check_cli,
           "rh_parse": c12.check_rh_parse}
    procs = procs or runner.NPROC
    work = tempfile.mkdtemp(prefix="vffuzz")
    try:
        dpath = os.path.join(work, "dict.txt")
        with open(dpath, "w") as f:
            for t in dictionary():
                f.write('"%s"\n' % "".join(chr(b) if 32 <= b < 127 and chr(b) not in '\\"' else "\\x%02X" % b for b in t.encode("utf-8")))
        jobs = []
        rng = random.Random(runner.mix(runner.SEED, 404))
        for i in range(procs):
            corpus = os.path.join(work, "corpus%d" % i)
            os.makedirs(corpus)
            if i % 2 == 1:       # seeded corpus: a few small valid inputs; even shards start empty
                for j in range(24):
                    ver = spec.VKEYS[j % 3]
                    with open(os.path.join(corpus, "seed%d" % j), "wb") as f:
                        f.write(bytes([j % 3, 1]) + gen.rng_vector(rng, ver).encode("utf-8"))
            out = os.path.join(work, "fail%d.jsonl" % i)
            cmd = [sys.executable, "-m", "vf.fuzz.target", which, out, corpus, "-dict=" + dpath,
                   "-runs=%d" % max(1, runs // procs), "-seed=%d" % (runner.mix(runner.SEED, 405, i) % (2 ** 31 - 1) + 1),
                   "-max_len=600", "-print_final_stats=1", "-timeout=30", "-rss_limit_mb=4096", "-artifact_prefix=" + os.path.join(work, "art%d-" % i)]
            jobs.append((subprocess.Popen(cmd, stdout=subprocess.PIPE, stderr=subprocess.STDOUT, cwd=runner.HOME), out))
        execs = 0
        cov = []
        nfail = 0
        for p, out in jobs:
            text = p.communicate()[0].decode("utf-8", "replace")
            m = re.search(r"stat::number_of_executed_units:\s*(\d+)", text)
            if m:
                execs += int(m.group(1))
            cs = re.findall(r"cov: (\d+)", text)
            if cs:
                cov.append(int(cs[-1]))
            if os.path.exists(out):
                with open(out) as f:
                    for line in f:
                        rec = json.loads(line)
                        nfail += 1
                        if only is None or rec["check"] in only:
                            part.check(rec["check"], fns[rec["check"]], rec["input"])
            elif p.returncode != 0 and "property violated" not in text:
                part.harness_errors.append("atheris process failed (status %s): %s" % (p.returncode, text[-600:]))
        part.evaluations += execs
        part.classes["atheris-execs:" + which] += execs
        return "atheris: %d executions in %d processes (even shards empty corpus, odd shards 24 valid seeds; token dictionary), final coverage per process %s, failures %d" % (
            execs, procs, cov, nfail)
    finally:
        shutil.rmtree(work, ignore_errors=True)
