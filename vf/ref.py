# -*- coding: utf-8 -*-
"""
Reference grammar acceptor / parser, canonical form and effective-value resolution.
Independent of cvss.*; uses only vf.spec.
"""
from __future__ import unicode_literals

from . import spec

OK, MALFORMED, MANDATORY = "ok", "malformed", "mandatory"


def classify(ver, s):
    """
    Returns (verdict, prefix, metrics) where verdict is ok / malformed / mandatory, and for 'ok'
    (and 'mandatory') metrics is the list of (metric, value) pairs in input order.
    A syntactic fault wins over a missing mandatory metric.
    """
    V = spec.VERS[ver]
    if not isinstance(s, type("")):
        return MALFORMED, None, None
    prefix = None
    for p in V.prefixes:
        if s.startswith(p):
            prefix = p
            break
    if prefix is None:
        return MALFORMED, None, None
    body = s[len(prefix):]
    seen = {}
    pairs = []
    for field in body.split("/"):
        parts = field.split(":")
        if len(parts) != 2:
            return MALFORMED, prefix, None
        m, v = parts
        if m not in V.values:
            return MALFORMED, prefix, None
        if v not in V.values[m]:
            return MALFORMED, prefix, None
        if m in seen:
            return MALFORMED, prefix, None
        seen[m] = v
        pairs.append((m, v))
    for m in V.mandatory:
        if m not in seen:
            return MANDATORY, prefix, pairs
    return OK, prefix, pairs


def accepts(ver, s):
    return classify(ver, s)[0] == OK


def parse(ver, s):
    """-> (prefix, dict metric->value) for an accepted vector; raises ValueError otherwise"""
    verdict, prefix, pairs = classify(ver, s)
    if verdict != OK:
        raise ValueError("not a valid v%s vector: %r" % (ver, s))
    return prefix, dict(pairs)


def defined(ver, metrics):
    """metrics given a defined value (not omitted, not Not Defined)"""
    nd = spec.VERS[ver].nd
    return dict((m, v) for m, v in metrics.items() if v != nd)


def canonical(ver, prefix, metrics, order=None, output_prefix=True):
    """canonical (cleaned) vector: defined metrics in the official order behind the prefix"""
    V = spec.VERS[ver]
    d = defined(ver, metrics)
    body = "/".join("%s:%s" % (m, d[m]) for m in (order or V.order) if m in d)
    return (prefix if output_prefix else "") + body


def model_key(ver, prefix, metrics):
    """equality key of C07: version (incl. minor) and the defined metric map"""
    return (ver, prefix, tuple(sorted(defined(ver, metrics).items())))


def build(prefix, metrics, order=None):
    ks = list(metrics) if order is None else order
    return prefix + "/".join("%s:%s" % (k, metrics[k]) for k in ks)


def minor(prefix):
    return {"CVSS:3.0/": 0, "CVSS:3.1/": 1}[prefix]


# --------------------------------------------------------------------------------------------------
# effective assignments
# --------------------------------------------------------------------------------------------------

def effective2(m):
    g = lambda k: m.get(k, "ND")
    return dict((k, g(k)) for k in spec.V2)


def effective3(m):
    """-> dict with base metrics, E/RL/RC/CR/IR/AR (X kept) and modified metrics resolved to base"""
    e = {}
    for k in ("AV", "AC", "PR", "UI", "S", "C", "I", "A"):
        e[k] = m[k]
        mv = m.get("M" + k, "X")
        e["M" + k] = m[k] if mv == "X" else mv
    for k in ("E", "RL", "RC", "CR", "IR", "AR"):
        e[k] = m.get(k, "X")
    return e


def effective4(m):
    """-> the 15 effective values that enter v4 scoring"""
    e = {}
    for k in ("AV", "AC", "AT", "PR", "UI", "VC", "VI", "VA", "SC", "SI", "SA"):
        mv = m.get("M" + k, "X")
        e[k] = m[k] if mv == "X" else mv
    for k, d in (("CR", "H"), ("IR", "H"), ("AR", "H"), ("E", "A")):
        v = m.get(k, "X")
        e[k] = d if v == "X" else v
    return e
