# -*- coding: utf-8 -*-
"""
Common plumbing: seeds, parts (mergeable partial results), evidence, replay files, known findings,
VIOLATION / KNOWN-FINDING lines, exit codes, multiprocessing and Hypothesis drivers.

Exit codes: 0 held on everything explored; 1 VIOLATION; 2 harness problem / inconclusive.
"""
from __future__ import print_function

import collections
import hashlib
import importlib
import json
import os
import sys
import time
import traceback

HOME = os.environ.get("VERIF_HOME") or os.path.dirname(os.path.dirname(os.path.abspath(__file__)))
REPO = os.path.abspath(os.environ.get("VERIF_REPO", "/repo"))
OUT = os.environ.get("VERIF_OUT") or HOME      # evidence/ and replays/ are written below this directory
SEED = int(os.environ.get("VERIF_SEED", "1") or "1")
NPROC = int(os.environ.get("VERIF_NPROC", "16"))
MAX_SAMPLES = 10
INTERP_MODE = os.environ.get("VERIF_INTERP") or ""    # set in the child interpreters of interpreter_modes()
RES_PER_PART = 24
RES_TOTAL = 640


class HarnessError(Exception):
    pass


def import_target():
    """make `import cvss` resolve to the tree under test and prove it"""
    if REPO not in sys.path or sys.path[0] != REPO:
        sys.path.insert(0, REPO)
    for name in list(sys.modules):
        if name == "cvss" or name.startswith("cvss."):
            mod = sys.modules[name]
            f = getattr(mod, "__file__", "") or ""
            if not os.path.abspath(f).startswith(REPO + os.sep):
                del sys.modules[name]
    fresh = "cvss" not in sys.modules
    import cvss  # noqa
    f = os.path.abspath(cvss.__file__)
    if not f.startswith(REPO + os.sep):
        raise HarnessError("cvss imported from %s, not from %s" % (f, REPO))
    if fresh:
        from . import sched
        sched.note_import_state()        # sizes of the module-level containers before anything was used (what is a table, what is state)
    return cvss


def h64(obj):
    s = obj if isinstance(obj, str) else json.dumps(obj, sort_keys=True, default=repr)
    return int.from_bytes(hashlib.blake2b(s.encode("utf-8", "surrogatepass"), digest_size=8).digest(), "big")


def mix(*ints):
    """deterministic integer mixing (independent of PYTHONHASHSEED)"""
    x = 0x9E3779B97F4A7C15
    for i in ints:
        x ^= (int(i) + 0x9E3779B97F4A7C15 + ((x << 6) & 0xFFFFFFFFFFFFFFFF) + (x >> 2)) & 0xFFFFFFFFFFFFFFFF
        x = (x * 0xBF58476D1CE4E5B9) & 0xFFFFFFFFFFFFFFFF
        x ^= x >> 31
    return x


# --------------------------------------------------------------------------------------------------
# known findings
# --------------------------------------------------------------------------------------------------

def load_known():
    """-> {(property, key): text} for 'finding:' lines; 'fixed:' lines suppress nothing"""
    path = os.path.join(HOME, "known_findings.txt")
    out = collections.OrderedDict()
    if not os.path.exists(path):
        return out
    with open(path) as f:
        for line in f:
            line = line.strip()
            if not line.startswith("finding:"):
                continue
            rest = line[len("finding:"):].strip()
            toks = rest.split(None, 2)
            prop = toks[0].split("=", 1)[1]
            key = toks[1].split("=", 1)[1]
            out[(prop, key)] = toks[2] if len(toks) > 2 else ""
    return out


# --------------------------------------------------------------------------------------------------
# failures
# --------------------------------------------------------------------------------------------------

def failure(expected, observed, key=None, note=None):
    d = {"expected": expected, "observed": observed}
    if key:
        d["key"] = key
    if note:
        d["note"] = note
    return d


class Falsified(Exception):
    """raised inside Hypothesis bodies so that the library shrinks the case"""

    def __init__(self, check, inp, failures):
        Exception.__init__(self, "%s falsified: %s" % (check, json.dumps(failures, default=repr)[:400]))
        self.check, self.inp, self.failures = check, inp, failures


def _in_target(tb):
    """does the traceback's innermost frame lie in the tree under test?"""
    last = None
    while tb is not None:
        last = tb
        tb = tb.tb_next
    if last is None:
        return False
    fn = os.path.abspath(last.tb_frame.f_code.co_filename)
    return fn.startswith(REPO + os.sep)


class Part(object):
    """mergeable partial result of one worker / shard"""

    def __init__(self, pid):
        self.pid = pid
        self.evaluations = 0
        self.nontrivial = set()       # 64-bit hashes (Hypothesis-style runs)
        self.nontrivial_count = 0     # counter (enumerations: classes distinct by construction)
        self.classes = collections.Counter()
        self.samples = []
        self.violations = []          # dicts: check, input, expected, observed, key?
        self.known_hits = collections.Counter()
        self.known_examples = {}
        self.notes = []
        self.harness_errors = []
        self.bad = []                 # raw failing inputs found by enumerators (post-processed later)
        self.extra = {}               # mergeable free-form data: sets are united, ints added
        self.reservoir = {}           # check name -> uniform sample of executed inputs (re-run under other interpreter modes)
        self._res_seen = {}
        self._res_rng = None
        self._known = None

    # ---- bookkeeping -------------------------------------------------------------------------
    def known(self):
        if self._known is None:
            self._known = load_known()
        return self._known

    def count(self, desc=None, nontrivial=False, classes=(), distinct=False, n=1):
        """
        register n executed cases.  desc: canonical description (hashed when nontrivial and not
        `distinct`); distinct=True means the caller guarantees distinctness (enumeration).
        """
        self.evaluations += n
        for c in classes:
            self.classes[c] += n
        if nontrivial:
            if distinct:
                self.nontrivial_count += n
            else:
                self.nontrivial.add(h64(desc))
            k = len(self.nontrivial) + self.nontrivial_count
            if desc is not None and len(self.samples) < MAX_SAMPLES and (k <= 3 or (k & (k - 1)) == 0):
                self.samples.append(desc)
        elif desc is not None and not self.samples:
            self.samples.append(desc)

    def reserve(self, check, inp):
        """Algorithm R with a generator of our own (seeded; never influences what is generated)"""
        if INTERP_MODE:
            return
        if self._res_rng is None:
            import random
            self._res_rng = random.Random(mix(SEED, 0x4E5, os.getpid() if False else 0))
        n = self._res_seen.get(check, 0)
        self._res_seen[check] = n + 1
        pool = self.reservoir.setdefault(check, [])
        if len(pool) < RES_PER_PART:
            pool.append(inp)
        else:
            j = self._res_rng.randrange(n + 1)
            if j < RES_PER_PART:
                pool[j] = inp

    def split_known(self, failures, inp=None):
        """remove failures whose key is a listed known finding (counted); return the rest"""
        rest = []
        for f in failures:
            k = f.get("key")
            if k and (self.pid, k) in self.known():
                self.known_hits[k] += 1
                if k not in self.known_examples:
                    self.known_examples[k] = {"input": inp, "observed": f.get("observed")}
            else:
                rest.append(f)
        return rest

    def add_failures(self, check, inp, failures):
        for f in self.split_known(failures, inp):
            v = {"check": check, "input": inp}
            v.update(f)
            self.violations.append(v)

    def check(self, check, fn, inp, hyp=False):
        """
        run check function fn(inp) -> list of failures.  An exception escaping from the tree under
        test is a failure of the case; an exception from the harness itself is a harness error.
        """
        self.reserve(check, inp)
        try:
            fails = fn(inp) or []
        except (Falsified, HarnessError, KeyboardInterrupt):
            raise
        except BaseException as e:  # noqa
            et, ev, tb = sys.exc_info()
            if _is_hypothesis_control(e):
                raise
            if _in_target(tb):
                fails = [failure("no exception", "%s: %s" % (type(e).__name__, str(e)[:200]),
                                 note="unexpected exception from the tree under test")]
            else:
                raise
        fails = self.split_known(fails, inp)
        if fails:
            if hyp:
                raise Falsified(check, inp, fails)
            for f in fails:
                v = {"check": check, "input": inp}
                v.update(f)
                self.violations.append(v)
        return not fails

    # ---- merging -----------------------------------------------------------------------------
    def merge(self, other):
        self.evaluations += other.evaluations
        self.nontrivial |= other.nontrivial
        self.nontrivial_count += other.nontrivial_count
        self.classes.update(other.classes)
        for s in other.samples:
            if len(self.samples) < MAX_SAMPLES:
                self.samples.append(s)
        self.violations.extend(other.violations)
        self.known_hits.update(other.known_hits)
        for k, v in other.known_examples.items():
            self.known_examples.setdefault(k, v)
        self.notes.extend(other.notes)
        self.harness_errors.extend(other.harness_errors)
        self.bad.extend(other.bad)
        for k, v in other.reservoir.items():
            pool = self.reservoir.setdefault(k, [])
            pool.extend(v[:max(0, RES_TOTAL - len(pool))])
        for k, v in other.extra.items():
            if k not in self.extra:
                self.extra[k] = v
            elif isinstance(v, (set, frozenset)):
                self.extra[k] = set(self.extra[k]) | set(v)
            elif isinstance(v, dict):
                d = self.extra[k]
                for kk, vv in v.items():
                    d[kk] = d.get(kk, 0) + vv
            else:
                self.extra[k] = self.extra[k] + v
        return self


def _is_hypothesis_control(e):
    mod = type(e).__module__ or ""
    return mod.startswith("hypothesis")


# --------------------------------------------------------------------------------------------------
# Hypothesis driver
# --------------------------------------------------------------------------------------------------

def hyp_settings(max_examples, shrink=True, **kw):
    from hypothesis import HealthCheck, Phase, settings
    phases = [Phase.explicit, Phase.generate, Phase.target]
    if shrink:
        phases.append(Phase.shrink)
    return settings(max_examples=max_examples, deadline=None, database=None, derandomize=False,
                    report_multiple_bugs=False, phases=phases, print_blob=False,
                    suppress_health_check=[HealthCheck.too_slow, HealthCheck.data_too_large,
                                           HealthCheck.filter_too_much, HealthCheck.large_base_example],
                    **kw)


def run_hyp(part, test, label=""):
    """execute a seeded @given test; a Falsified escaping is the shrunk counterexample"""
    import hypothesis.errors as he
    try:
        test()
    except Falsified as f:
        for x in f.failures:
            v = {"check": f.check, "input": f.inp, "shrunk": True}
            v.update(x)
            part.violations.append(v)
    except (he.Unsatisfiable, he.FailedHealthCheck, he.InvalidArgument) as e:
        part.harness_errors.append("%s: hypothesis %s: %s" % (label, type(e).__name__, e))
    except he.Flaky as e:
        part.harness_errors.append("%s: hypothesis reports flaky behaviour: %s" % (label, str(e)[:500]))
    return part


def seeded(*salt):
    """decorator factory: seed a @given test from VERIF_SEED and a salt (property, shard ...)"""
    from hypothesis import seed

    def deco(test):
        return seed(mix(SEED, *salt))(test)
    return deco


def hyp_shards(modname, fname, total_examples, shards=None, args=()):
    """
    run module-level fname(n_examples, shard, *args) -> Part in `shards` worker processes, each
    with its own seed derived from VERIF_SEED and the shard number; merge the parts.
    """
    shards = shards or NPROC
    per = max(1, total_examples // shards)
    parts = parallel(modname, fname, [(per, i) + tuple(args) for i in range(shards)])
    out = parts[0]
    for p in parts[1:]:
        out.merge(p)
    return out


# --------------------------------------------------------------------------------------------------
# multiprocessing
# --------------------------------------------------------------------------------------------------

def _call(args):
    modname, fname, a = args
    try:
        import_target()
        mod = importlib.import_module(modname)
        return getattr(mod, fname)(*a)
    except BaseException:  # noqa
        p = Part("?")
        p.harness_errors.append("worker %s.%s%r crashed:\n%s" % (modname, fname, a[:2], traceback.format_exc()))
        return p


def parallel(modname, fname, arglist, procs=None, chunksize=1):
    """run module-level function in worker processes; each returns a Part (or any picklable)"""
    import multiprocessing as mp
    procs = procs or NPROC
    jobs = [(modname, fname, tuple(a)) for a in arglist]
    if procs <= 1 or len(jobs) <= 1:
        return [_call(j) for j in jobs]
    ctx = mp.get_context("fork")
    with ctx.Pool(min(procs, len(jobs))) as pool:
        return pool.map(_call, jobs, chunksize=chunksize)


def ddmin(items, still_fails, budget=200):
    """
    delta debugging on a list: smallest sub-list (order kept) found within `budget` evaluations on which
    still_fails(sub_list) stays true.  Used to shrink history-dependent failures that are not Hypothesis cases.
    """
    items = list(items)
    n = 2
    calls = 0
    while len(items) >= 2 and calls < budget:
        chunk = max(1, len(items) // n)
        reduced = False
        for i in range(0, len(items), chunk):
            cand = items[:i] + items[i + chunk:]
            calls += 1
            if cand and still_fails(cand):
                items = cand
                n = max(n - 1, 2)
                reduced = True
                break
            if calls >= budget:
                break
        if not reduced:
            if chunk == 1:
                break
            n = min(len(items), n * 2)
    return items


def fresh_fails(pid, check, inp):
    """does the replayable check fail on this input in a FRESH process (no state left over from earlier cases)?"""
    import subprocess
    import tempfile
    d = tempfile.mkdtemp(prefix="vfreplay")
    try:
        path = os.path.join(d, "case.json")
        with open(path, "w") as f:
            json.dump({"property": pid, "check": check, "input": inp}, f, default=repr)
        env = dict(os.environ, VERIF_REPO=REPO, VERIF_OUT=d)
        p = subprocess.run([sys.executable, "-m", "vf", pid, "replay", path], cwd=HOME, env=env, stdout=subprocess.PIPE, stderr=subprocess.STDOUT)
        return p.returncode == 1
    finally:
        import shutil
        shutil.rmtree(d, ignore_errors=True)


def in_thread(fn, *a):
    """run fn(*a) in a fresh non-main thread (fresh thread-local state, e.g. the default decimal context)"""
    import threading
    box = {}

    def body():
        try:
            box["r"] = fn(*a)
        except BaseException as e:  # noqa
            box["e"] = e
    t = threading.Thread(target=body)
    t.start()
    t.join()
    if "e" in box:
        raise box["e"]
    return box["r"]


# --------------------------------------------------------------------------------------------------
# finishing: evidence, replay files, output lines
# --------------------------------------------------------------------------------------------------

# --------------------------------------------------------------------------------------------------
# other interpreter modes: a sample of the executed cases goes through the same replayable check functions in
# child interpreters started with PYTHONOPTIMIZE=1 / 2 (assert statements, then docstrings, compiled away)
# --------------------------------------------------------------------------------------------------

def host_application_settings():
    """
    what an application may have configured before it (lazily) imports and uses the library: the logging system at DEBUG
    (records go to a null stream), and another decimal context being current WHILE THE PACKAGE IS IMPORTED (60 digits,
    ROUND_05UP, no traps - inside the statement's 'any rounding mode, at least the default precision'); the default context
    is current again when the cases run.  A library that computes differently when somebody listens to its log, or that
    keeps the context it saw at import, shows only then.
    """
    import decimal
    import logging
    logging.basicConfig(level=logging.DEBUG, stream=open(os.devnull, "w"))
    logging.getLogger().setLevel(logging.DEBUG)
    logging.captureWarnings(False)
    x = decimal.Context(prec=60, rounding=decimal.ROUND_05UP, traps=[], capitals=0)
    decimal.setcontext(x)
    import_target()
    for name in ("cvss.parser", "cvss.cvss_calculator", "cvss.interactive"):
        try:
            importlib.import_module(name)
        except Exception:  # noqa
            pass
    # the application goes on using ITS context object for its own coarse arithmetic; the cases run under a new default
    # context whose sticky signal flags are all set (somebody caught an InvalidOperation earlier): both are ambient state
    # within the statement's domain, and a library that kept the object it saw at import, or that reads flags, shows now
    x.prec, x.rounding, x.Emax, x.Emin = 1, decimal.ROUND_DOWN, 9, -9
    cur = decimal.Context()
    for sig in list(cur.flags):
        cur.flags[sig] = True
    decimal.setcontext(cur)
    # ... and the application has edited the module-level template of new contexts, the documented way of setting
    # application-wide defaults (threads started from now on, and every bare Context(), take their settings from it)
    decimal.DefaultContext.rounding = decimal.ROUND_DOWN
    decimal.DefaultContext.capitals = 0


def reload_target():
    """
    every module of the package executed again, twice in a row, in dependency order (found from the import statements):
    what an auto-reloading shell or server does.  A module body with a non-idempotent effect on ANOTHER module's data
    (a table scaled in place at import ...) shows only then.  All objects are created after the reload.
    """
    import ast
    import pkgutil
    import cvss
    names = ["cvss"] + ["cvss." + m.name for m in pkgutil.iter_modules(cvss.__path__)]
    mods, deps = {}, {}
    for n in names:
        try:
            mods[n] = importlib.import_module(n)
        except Exception:
            continue
    for n, m in mods.items():
        deps[n] = set()
        try:
            with open(m.__file__.replace(".pyc", ".py")) as f:
                tree = ast.parse(f.read())
        except Exception:
            continue
        for node in ast.walk(tree):
            if isinstance(node, ast.ImportFrom):
                base = ("cvss" + ("." + node.module if node.module else "")) if node.level else (node.module or "")
                cands = [base] + [base + "." + a.name for a in node.names]
            elif isinstance(node, ast.Import):
                cands = [a.name for a in node.names]
            else:
                continue
            deps[n].update(c for c in cands if c in mods and c != n)
    if "cvss" in deps:
        deps["cvss"].discard("cvss.cvss_calculator")
    order, seen = [], set()

    def visit(n, stack=()):
        if n in seen or n in stack:
            return
        for d in sorted(deps.get(n, ())):
            visit(d, stack + (n,))
        seen.add(n)
        order.append(n)
    for n in sorted(mods):
        visit(n)
    for n in order:
        importlib.reload(mods[n])
        importlib.reload(mods[n])
    return order


def batch_main(pid, mod, infile, outfile):
    """child side: run [check, input] pairs, write the failures"""
    with open(infile) as f:
        items = json.load(f)
    part = Part(pid)
    for i, (check, inp) in enumerate(items):
        before = len(part.violations)
        try:
            part.check(check, mod.CHECKS[check], inp)
        except HarnessError as e:
            part.harness_errors.append("batch item %d (%s): %s" % (i, check, e))
        except BaseException:  # noqa
            part.harness_errors.append("batch item %d (%s): %s" % (i, check, traceback.format_exc()[-1500:]))
    with open(outfile, "w") as f:
        json.dump({"n": len(items), "violations": part.violations, "harness_errors": part.harness_errors,
                   "known_hits": dict(part.known_hits), "known_examples": part.known_examples}, f, default=repr)
    return 0


def interpreter_modes(part, tier):
    import shutil
    import subprocess
    import tempfile
    if INTERP_MODE or os.environ.get("VERIF_NO_MODES") == "1" or not part.reservoir:
        return
    cap = 96 if tier == "quick" else 384
    items = []
    for check in sorted(part.reservoir):
        pool = part.reservoir[check]
        step = max(1, len(pool) // cap)
        items.extend([check, inp] for inp in pool[::step][:cap])
    try:
        items = json.loads(json.dumps(items))      # exactly what a replay file would hold
    except (TypeError, ValueError) as e:
        part.harness_errors.append("interpreter modes: sampled inputs are not JSON-serialisable: %r" % e)
        return
    for it in items:
        if isinstance(it[1], dict):
            it[1] = dict((k, x) for k, x in it[1].items() if not str(k).startswith("_"))
    modes = [({"PYTHONOPTIMIZE": "1"}, "python -O"), ({"VERIF_RELOAD": "1"}, "modules reloaded"), ({"VERIF_PYFLAGS": "-bb"}, "python -bb"),
             ({"VERIF_HOST": "1"}, "host settings: logging at DEBUG, imported under another decimal context, signal flags set"),
             ({"VERIF_PYDECIMAL": "1"}, "pure-Python decimal module (no _decimal accelerator)"),
             ({"PYTHONDEVMODE": "1"}, "Python Development Mode (-X dev: eager checks of codec and error-handler names ...)")]
    if tier != "quick":
        modes.append(({"PYTHONOPTIMIZE": "2"}, "python -OO"))
    d = tempfile.mkdtemp(prefix="vfmodes")
    try:
        for menv, label in modes:
            level = "".join(sorted(menv.values())) + sorted(menv)[0][-3:]
            n = min(NPROC, max(1, len(items) // 4))
            procs = []
            for j in range(n):
                chunk = items[j::n]
                fin, fout = os.path.join(d, "in%s-%d.json" % (level, j)), os.path.join(d, "out%s-%d.json" % (level, j))
                with open(fin, "w") as f:
                    json.dump(chunk, f)
                env = dict(os.environ, VERIF_REPO=REPO, VERIF_OUT=d, VERIF_INTERP=level, PYTHONDONTWRITEBYTECODE="1", VERIF_NPROC="1")
                env.update(menv)
                procs.append((subprocess.Popen([sys.executable] + menv.get("VERIF_PYFLAGS", "").split() + ["-m", "vf", part.pid, "batch", fin, fout], cwd=HOME, env=env,
                                               stdout=subprocess.PIPE, stderr=subprocess.STDOUT), fout, len(chunk)))
            for p, fout, k in procs:
                try:
                    out, _ = p.communicate(timeout=1800)
                except subprocess.TimeoutExpired:
                    p.kill()
                    part.notes.append("interpreter mode %s: a batch of %d cases exceeded its time budget (inconclusive)" % (label, k))
                    continue
                try:
                    with open(fout) as f:
                        res = json.load(f)
                except (OSError, ValueError):
                    part.harness_errors.append("interpreter mode %s: batch produced no result (rc=%s): %s" % (label, p.returncode, out.decode("utf-8", "replace")[-1200:]))
                    continue
                part.evaluations += res["n"]
                part.classes["re-run under " + label] += res["n"]
                part.harness_errors.extend(res["harness_errors"])
                for kk, nn in res["known_hits"].items():
                    part.known_hits[kk] += nn
                    part.known_examples.setdefault(kk, res["known_examples"].get(kk, {}))
                for v in res["violations"]:
                    v["env"] = dict(menv)
                    v["note"] = ((v.get("note") or "") + " [observed in a child interpreter: %s, i.e. %s]" % (label, menv)).strip()
                    part.violations.append(v)
    finally:
        shutil.rmtree(d, ignore_errors=True)


def write_replay(pid, v):
    d = os.path.join(OUT, "replays", pid)
    os.makedirs(d, exist_ok=True)
    if isinstance(v.get("input"), dict):
        v = dict(v, input=dict((k, x) for k, x in v["input"].items() if not str(k).startswith("_")))
    body = {"property": pid, "check": v["check"], "input": v["input"], "expected": v.get("expected"),
            "observed": v.get("observed")}
    for k in ("key", "note", "env"):
        if k in v:
            body[k] = v[k]
    name = "%s-%016x.json" % (v["check"], h64(json.dumps([v["check"], v["input"], v.get("env")], sort_keys=True, default=repr)))
    path = os.path.join(d, name)
    with open(path, "w") as f:
        json.dump(body, f, indent=1, sort_keys=True, default=repr)
    return path


def replay_in_env(pid, path, env):
    import subprocess
    e = dict(os.environ, VERIF_REPO=REPO, VERIF_INTERP="replay", PYTHONDONTWRITEBYTECODE="1")
    e.update(env)
    p = subprocess.run([sys.executable] + env.get("VERIF_PYFLAGS", "").split() + ["-m", "vf", pid, "replay", path], cwd=HOME, env=e,
                       stdout=subprocess.PIPE, stderr=subprocess.STDOUT)
    return p.returncode, p.stdout.decode("utf-8", "replace")


def replay_regressions(part):
    """
    the seconds-long replay tier: saved inputs under /verif/regress/<ID>/*.json (shrunk counterexamples of repaired
    defects, of the sensitivity mutants and of the independently seeded changes) go through the replayable check
    functions, without any generator library, on every run
    """
    d = os.path.join(HOME, "regress", part.pid)
    if not os.path.isdir(d):
        return 0
    try:
        mod = importlib.import_module("vf.props." + part.pid.lower())
    except ImportError:
        return 0
    n = 0
    for name in sorted(os.listdir(d)):
        if not name.endswith(".json"):
            continue
        try:
            with open(os.path.join(d, name)) as f:
                case = json.load(f)
            fn = mod.CHECKS[case["check"]]
        except (ValueError, KeyError, OSError) as e:
            part.harness_errors.append("regression file %s unusable: %r" % (name, e))
            continue
        before = len(part.violations)
        env = case.get("env") or {}
        if env and any(os.environ.get(k) != v for k, v in env.items()):
            # a case that needs another interpreter mode: replay it in a child started that way
            rc, out = replay_in_env(part.pid, os.path.join(d, name), env)
            if rc == 1:
                part.violations.append({"check": case["check"], "input": case["input"], "env": env, "expected": case.get("expected"),
                                        "observed": out[-400:]})
            elif rc != 0:
                part.harness_errors.append("regression file %s under %r: exit %s: %s" % (name, env, rc, out[-600:]))
            n += 1
            continue
        try:
            part.check(case["check"], fn, case["input"])
        except HarnessError as e:
            part.harness_errors.append("regression file %s: %s" % (name, e))
        for v in part.violations[before:]:
            v["note"] = (v.get("note") or "") + " [saved regression input %s]" % name
        n += 1
    part.evaluations += n
    part.classes["saved-regression-inputs"] += n
    return n


def finish(part, tier, t0, rule, assumptions, exhaustive=False, required=(), extra=None, level="exploration"):
    pid = part.pid
    if os.environ.get("VERIF_NO_REGRESS") != "1":
        replay_regressions(part)
    interpreter_modes(part, tier)
    wall = time.time() - t0
    for c in required:
        if part.classes.get(c, 0) == 0:
            part.harness_errors.append("generator class %r stayed empty (generator health)" % c)
    # group violations by (check, key/expected/observed signature); report the smallest input per group
    groups = collections.OrderedDict()
    for v in part.violations:
        sig = (v["check"], json.dumps(v.get("env")), v.get("key") or json.dumps([v.get("expected"), v.get("observed")], default=repr)[:120])
        cur = groups.get(sig)
        size = len(json.dumps(v["input"], default=repr))
        if cur is None or size < cur[0]:
            groups[sig] = (size, v)
    nontriv = len(part.nontrivial) + part.nontrivial_count
    cov = {"evaluations": part.evaluations, "distinct_nontrivial": nontriv, "rule": rule,
           "samples": part.samples[:MAX_SAMPLES], "classes": dict(sorted(part.classes.items())),
           "exhaustive": bool(exhaustive)}
    if extra:
        cov.update(extra)
    if part.known_hits:
        cov["known_findings_reproduced"] = dict(part.known_hits)
    ev = {"property_id": pid, "tier": tier, "seed": SEED, "level": level, "coverage": cov,
          "assumptions": list(assumptions), "wall_s": round(wall, 2), "violations": len(groups),
          "repo": REPO}
    if part.notes:
        ev["notes"] = part.notes[:50]
    if part.harness_errors:
        ev["harness_errors"] = [h[:2000] for h in part.harness_errors[:20]]
    os.makedirs(os.path.join(OUT, "evidence"), exist_ok=True)
    with open(os.path.join(OUT, "evidence", pid + ".json"), "w") as f:
        json.dump(ev, f, indent=1, sort_keys=True, default=repr)
        f.write("\n")
    known = part.known()
    for k, n in sorted(part.known_hits.items()):
        exi = part.known_examples.get(k, {})
        print("KNOWN-FINDING: property=%s key=%s %s [reproduced %d times, e.g. %s]" % (
            pid, k, known.get((pid, k), ""), n, json.dumps(exi.get("input"), default=repr)[:160]))
    rc = 0
    shown = collections.Counter()
    for sig, (size, v) in sorted(groups.items(), key=lambda kv: kv[1][0]):
        shown[v["check"]] += 1
        if shown[v["check"]] > 6:      # same check, many signatures: usually one root cause; keep the smallest six
            rc = 1
            continue
        path = write_replay(pid, v)
        print("VIOLATION property=%s replay=%s" % (pid, path))
        print("  check=%s input=%s" % (v["check"], json.dumps(v["input"], default=repr)[:300]))
        print("  expected=%s" % json.dumps(v.get("expected"), default=repr)[:300])
        print("  observed=%s" % json.dumps(v.get("observed"), default=repr)[:300])
        rc = 1
    if part.harness_errors and rc == 0:
        for h in sorted(set(part.harness_errors))[:3]:
            print("HARNESS-ERROR property=%s %s" % (pid, h[:1500]), file=sys.stderr)
        rc = 2
    print("%s %s seed=%d: %d cases, %d distinct non-trivial, %d violation group(s), %.1fs -> exit %d" % (
        pid, tier, SEED, part.evaluations, nontriv, len(groups), wall, rc))
    return rc
