# -*- coding: utf-8 -*-
"""
Exact (fractions.Fraction) oracles for the CVSS v2, v3.0/v3.1 and v4.0 scoring equations.
None of this calls cvss.*.  Inputs are *effective* assignments (see vf.ref.effective*).
"""
from __future__ import unicode_literals

import itertools
import math
from fractions import Fraction as F

from . import spec

# ==================================================================================================
# v2
# ==================================================================================================
_W2 = spec.W2


def _r1(x):
    """round half up (away from zero) to one decimal, exact"""
    s = -1 if x < 0 else 1
    return s * F(math.floor(abs(x) * 10 + F(1, 2)), 10)


def _memo(f):
    cache = {}

    def g(*a):
        try:
            return cache[a]
        except KeyError:
            r = cache[a] = f(*a)
            return r
    g.cache = cache
    return g


@_memo
def _base2(AV, AC, Au, impact):
    ex = 20 * _W2["AV"][AV] * _W2["AC"][AC] * _W2["Au"][Au]
    f = 0 if impact == 0 else F("1.176")
    return _r1((F("0.6") * impact + F("0.4") * ex - F("1.5")) * f)


@_memo
def _imp2(C, I, A):
    cia = _W2["CIA"]
    return F("10.41") * (1 - (1 - cia[C]) * (1 - cia[I]) * (1 - cia[A]))


@_memo
def _aimp2(C, I, A, CR, IR, AR):
    cia, req = _W2["CIA"], _W2["REQ"]
    return min(F(10), F("10.41") * (1 - (1 - cia[C] * req[CR]) * (1 - cia[I] * req[IR]) * (1 - cia[A] * req[AR])))


@_memo
def _tw2(E, RL, RC):
    return _W2["E"][E] * _W2["RL"][RL] * _W2["RC"][RC]


@_memo
def _r1mul(a, b):
    return _r1(a * b)


@_memo
def _env2(at, CDP, TD):
    return max(F(0), _r1((at + (10 - at) * _W2["CDP"][CDP]) * _W2["TD"][TD]))


def score2(e):
    """e: dict of the 14 v2 metrics (ND for undefined). -> (base, temporal|None, environmental|None)"""
    b = max(F(0), _base2(e["AV"], e["AC"], e["Au"], _imp2(e["C"], e["I"], e["A"])))
    tw = _tw2(e["E"], e["RL"], e["RC"])
    if (e["E"], e["RL"], e["RC"]) == ("ND", "ND", "ND"):
        t = None
    else:
        t = max(F(0), _r1mul(b, tw))
    if all(e[k] == "ND" for k in ("CDP", "TD", "CR", "IR", "AR")):
        en = None
    else:
        ab = _base2(e["AV"], e["AC"], e["Au"], _aimp2(e["C"], e["I"], e["A"], e["CR"], e["IR"], e["AR"]))
        at = _r1mul(ab, tw)
        en = _env2(at, e["CDP"], e["TD"])
    return (b, t, en)


# ==================================================================================================
# v3
# ==================================================================================================
_W3 = spec.W3


def roundup(x):
    return F(math.ceil(x * 10), 10)


@_memo
def _base3(AV, AC, PR, UI, S, C, I, A):
    cia = _W3["CIA"]
    iss = 1 - (1 - cia[C]) * (1 - cia[I]) * (1 - cia[A])
    if S == "U":
        imp = F("6.42") * iss
    else:
        imp = F("7.52") * (iss - F("0.029")) - F("3.25") * (iss - F("0.02")) ** 15
    pr = (_W3["PRU"] if S == "U" else _W3["PRC"])[PR]
    ex = F("8.22") * _W3["AV"][AV] * _W3["AC"][AC] * pr * _W3["UI"][UI]
    if imp <= 0:
        return F(0)
    if S == "U":
        return roundup(min(imp + ex, 10))
    return roundup(min(F("1.08") * (imp + ex), 10))


def base3(e):
    return _base3(e["AV"], e["AC"], e["PR"], e["UI"], e["S"], e["C"], e["I"], e["A"])


@_memo
def _tw3(E, RL, RC):
    return _W3["E"][E] * _W3["RL"][RL] * _W3["RC"][RC]


@_memo
def _mimpact3(minor, MS, MC, MI, MA, CR, IR, AR):
    cia, req = _W3["CIA"], _W3["REQ"]
    miss = min(1 - (1 - cia[MC] * req[CR]) * (1 - cia[MI] * req[IR]) * (1 - cia[MA] * req[AR]), F("0.915"))
    if MS == "U":
        return F("6.42") * miss
    if minor == 0:
        return F("7.52") * (miss - F("0.029")) - F("3.25") * (miss - F("0.02")) ** 15
    return F("7.52") * (miss - F("0.029")) - F("3.25") * (miss * F("0.9731") - F("0.02")) ** 13


@_memo
def _mexpl3(MAV, MAC, MPR, MUI, MS):
    mpr = (_W3["PRU"] if MS == "U" else _W3["PRC"])[MPR]
    return F("8.22") * _W3["AV"][MAV] * _W3["AC"][MAC] * mpr * _W3["UI"][MUI]


@_memo
def _mbase3(mi, me, MS):
    if mi <= 0:
        return None
    if MS == "U":
        return roundup(min(mi + me, 10))
    return roundup(min(F("1.08") * (mi + me), 10))


@_memo
def _rumul(a, b):
    return roundup(a * b)


def score3(minor, e):
    """minor 0/1; e = ref.effective3(...) -> (base, temporal, environmental) Fractions"""
    b = base3(e)
    tw = _tw3(e["E"], e["RL"], e["RC"])
    t = _rumul(b, tw)
    mi = _mimpact3(minor, e["MS"], e["MC"], e["MI"], e["MA"], e["CR"], e["IR"], e["AR"])
    me = _mexpl3(e["MAV"], e["MAC"], e["MPR"], e["MUI"], e["MS"])
    m = _mbase3(mi, me, e["MS"])
    en = F(0) if m is None else _rumul(m, tw)
    return (b, t, en)


def miss_cap_active3(e):
    cia, req = _W3["CIA"], _W3["REQ"]
    raw = 1 - (1 - cia[e["MC"]] * req[e["CR"]]) * (1 - cia[e["MI"]] * req[e["IR"]]) \
        * (1 - cia[e["MA"]] * req[e["AR"]])
    return raw > F("0.915")


# ==================================================================================================
# v4
# ==================================================================================================
# severity levels: index 0 = MOST severe (as in the specification's severity-distance description)
LV4 = dict(AV="NALP", PR="NLH", UI="NPA", AC="LH", AT="NP", VC="HLN", VI="HLN", VA="HLN",
           SC="HLN", SI="SHLN", SA="SHLN", CR="HML", IR="HML", AR="HML")
# SC has no 'S' level but shares the 0.1-step scale with SI/SA starting at H = 1: distances are
# differences, so the offset is irrelevant.


def eq1(AV, PR, UI):
    if AV == "N" and PR == "N" and UI == "N":
        return 0
    if (AV == "N" or PR == "N" or UI == "N") and AV != "P":
        return 1
    return 2


def eq2(AC, AT):
    return 0 if (AC == "L" and AT == "N") else 1


def eq36(VC, VI, VA, CR, IR, AR):
    if VC == "H" and VI == "H":
        q3 = 0
    elif VC == "H" or VI == "H" or VA == "H":
        q3 = 1
    else:
        q3 = 2
    q6 = 0 if ((CR == "H" and VC == "H") or (IR == "H" and VI == "H") or (AR == "H" and VA == "H")) else 1
    return (q3, q6)


def eq4(SC, SI, SA):
    if SI == "S" or SA == "S":
        return 0
    if SC == "H" or SI == "H" or SA == "H":
        return 1
    return 2


EQ5 = {"A": 0, "P": 1, "U": 2}


def _derive(keys, f):
    """
    For every level of an EQ: its members, its Pareto-maximal (highest severity) members under the
    per-metric order and its depth = 1 + the largest severity distance inside the level.
    """
    levels = {}
    for vals in itertools.product(*[LV4[k] for k in keys]):
        levels.setdefault(f(*vals), []).append(tuple(LV4[k].index(v) for k, v in zip(keys, vals)))
    out = {}
    for L, members in levels.items():
        maxima = [m for m in members
                  if not any(o != m and all(a <= b for a, b in zip(o, m)) for o in members)]

        def dist(m):
            ds = set(sum(a - b for a, b in zip(m, mx)) for mx in maxima
                     if all(a >= b for a, b in zip(m, mx)))
            assert len(ds) == 1, ("distance depends on chosen maximum", keys, L, m, ds)
            return ds.pop()
        dmap = dict((m, dist(m)) for m in members)
        out[L] = {"maxima": maxima, "depth": 1 + max(dmap.values()), "dist": dmap}
    return out


K1, K2, K36, K4 = ("AV", "PR", "UI"), ("AC", "AT"), ("VC", "VI", "VA", "CR", "IR", "AR"), ("SC", "SI", "SA")
D1, D2, D36, D4 = _derive(K1, eq1), _derive(K2, eq2), _derive(K36, eq36), _derive(K4, eq4)
_LOOK = None


def look():
    global _LOOK
    if _LOOK is None:
        _LOOK = spec.lookup4()
    return _LOOK


def macro4(e):
    return (eq1(e["AV"], e["PR"], e["UI"]), eq2(e["AC"], e["AT"]),
            eq36(e["VC"], e["VI"], e["VA"], e["CR"], e["IR"], e["AR"])[0],
            eq4(e["SC"], e["SI"], e["SA"]), EQ5[e["E"]],
            eq36(e["VC"], e["VI"], e["VA"], e["CR"], e["IR"], e["AR"])[1])


def _key(q):
    return "".join(str(x) for x in q)


def detail4(e):
    """-> dict with exact pre-rounding value and structure information (for non-triviality rules)"""
    LOOK = look()
    if all(e[k] == "N" for k in ("VC", "VI", "VA", "SC", "SI", "SA")):
        return {"score": F(0), "zero": True, "macro": None, "exact": F(0), "n_lower": 0, "dists": (0, 0, 0, 0)}
    q = macro4(e)
    q1, q2, q3, q4, q5, q6 = q
    val = LOOK[_key(q)]

    def nl(*d):
        return LOOK.get(_key(tuple(a + b for a, b in zip(q, d))))
    n1, n2, n4, n5 = nl(1, 0, 0, 0, 0, 0), nl(0, 1, 0, 0, 0, 0), nl(0, 0, 0, 1, 0, 0), nl(0, 0, 0, 0, 1, 0)
    if (q3, q6) in ((1, 1), (0, 1)):
        n36 = nl(0, 0, 1, 0, 0, 0)
    elif (q3, q6) == (1, 0):
        n36 = nl(0, 0, 0, 0, 0, 1)
    elif (q3, q6) == (0, 0):
        c = [x for x in (nl(0, 0, 0, 0, 0, 1), nl(0, 0, 1, 0, 0, 0)) if x is not None]
        n36 = max(c) if c else None
    else:
        n36 = nl(0, 0, 1, 0, 0, 1)

    def lv(keys):
        return tuple(LV4[k].index(e[k]) for k in keys)
    d1 = D1[q1]["dist"][lv(K1)]
    d2 = D2[q2]["dist"][lv(K2)]
    d36 = D36[(q3, q6)]["dist"][lv(K36)]
    d4 = D4[q4]["dist"][lv(K4)]
    parts = []
    if n1 is not None:
        parts.append((val - n1) * F(d1, D1[q1]["depth"]))
    if n2 is not None:
        parts.append((val - n2) * F(d2, D2[q2]["depth"]))
    if n36 is not None:
        parts.append((val - n36) * F(d36, D36[(q3, q6)]["depth"]))
    if n4 is not None:
        parts.append((val - n4) * F(d4, D4[q4]["depth"]))
    if n5 is not None:
        parts.append(F(0))
    mean = sum(parts) / len(parts) if parts else F(0)
    exact = max(F(0), min(F(10), val - mean))
    return {"score": F(math.floor(exact * 10 + F(1, 2)), 10), "zero": False, "macro": _key(q),
            "exact": exact, "n_lower": len(parts), "dists": (d1, d2, d36, d4)}


def score4(e):
    return detail4(e)["score"]


# ---- fast path for enumerators: table look-ups + memoised interpolation -------------------------
def _mk_maps():
    m1 = dict(((a, p, u), (eq1(a, p, u), None)) for a in LV4["AV"] for p in LV4["PR"] for u in LV4["UI"])
    for k in list(m1):
        q = m1[k][0]
        m1[k] = (q, D1[q]["dist"][tuple(LV4[n].index(v) for n, v in zip(K1, k))])
    m2 = {}
    for k in itertools.product(LV4["AC"], LV4["AT"]):
        q = eq2(*k)
        m2[k] = (q, D2[q]["dist"][tuple(LV4[n].index(v) for n, v in zip(K2, k))])
    m36 = {}
    for k in itertools.product(*[LV4[n] for n in K36]):
        q = eq36(*k)
        m36[k] = (q, D36[q]["dist"][tuple(LV4[n].index(v) for n, v in zip(K36, k))])
    m4 = {}
    for k in itertools.product(*[LV4[n] for n in K4]):
        q = eq4(*k)
        m4[k] = (q, D4[q]["dist"][tuple(LV4[n].index(v) for n, v in zip(K4, k))])
    return m1, m2, m36, m4


M1, M2, M36, M4 = _mk_maps()


@_memo
def _interp4(q, d1, d2, d36, d4):
    LOOK = look()
    q1, q2, q3, q4, q5, q6 = q
    val = LOOK[_key(q)]

    def nl(*d):
        return LOOK.get(_key(tuple(a + b for a, b in zip(q, d))))
    n1, n2, n4, n5 = nl(1, 0, 0, 0, 0, 0), nl(0, 1, 0, 0, 0, 0), nl(0, 0, 0, 1, 0, 0), nl(0, 0, 0, 0, 1, 0)
    if (q3, q6) in ((1, 1), (0, 1)):
        n36 = nl(0, 0, 1, 0, 0, 0)
    elif (q3, q6) == (1, 0):
        n36 = nl(0, 0, 0, 0, 0, 1)
    elif (q3, q6) == (0, 0):
        c = [x for x in (nl(0, 0, 0, 0, 0, 1), nl(0, 0, 1, 0, 0, 0)) if x is not None]
        n36 = max(c) if c else None
    else:
        n36 = nl(0, 0, 1, 0, 0, 1)
    parts = []
    if n1 is not None:
        parts.append((val - n1) * F(d1, D1[q1]["depth"]))
    if n2 is not None:
        parts.append((val - n2) * F(d2, D2[q2]["depth"]))
    if n36 is not None:
        parts.append((val - n36) * F(d36, D36[(q3, q6)]["depth"]))
    if n4 is not None:
        parts.append((val - n4) * F(d4, D4[q4]["depth"]))
    if n5 is not None:
        parts.append(F(0))
    mean = sum(parts) / len(parts) if parts else F(0)
    exact = max(F(0), min(F(10), val - mean))
    return float(F(math.floor(exact * 10 + F(1, 2)), 10)), len(parts), exact


_MEMBERS = None


def members4():
    """macrovector structure for stratified generation: EQ level -> list of member value tuples"""
    global _MEMBERS
    if _MEMBERS is None:
        m1, m2, m36, m4 = {}, {}, {}, {}
        for k, (q, d) in M1.items():
            m1.setdefault(q, []).append(k)
        for k, (q, d) in M2.items():
            m2.setdefault(q, []).append(k)
        for k, (q, d) in M36.items():
            m36.setdefault(q, []).append(k)
        for k, (q, d) in M4.items():
            m4.setdefault(q, []).append(k)
        _MEMBERS = (m1, m2, m36, m4)
    return _MEMBERS


def random_in_macro(rng, key):
    """a uniformly random effective assignment inside macrovector `key` (6-digit string of the lookup table)"""
    m1, m2, m36, m4 = members4()
    q1, q2, q3, q4, q5, q6 = (int(c) for c in key)
    e = {}
    e.update(zip(K1, rng.choice(m1[q1])))
    e.update(zip(K2, rng.choice(m2[q2])))
    e.update(zip(K36, rng.choice(m36[(q3, q6)])))
    e.update(zip(K4, rng.choice(m4[q4])))
    e["E"] = "APU"[q5]
    return e


def fast4(e):
    """-> (score as float, macro key or None, n existing lower macrovectors, sum of distances)"""
    if e["VC"] == "N" and e["VI"] == "N" and e["VA"] == "N" and e["SC"] == "N" and e["SI"] == "N" and e["SA"] == "N":
        return 0.0, None, 0, 0
    q1, d1 = M1[(e["AV"], e["PR"], e["UI"])]
    q2, d2 = M2[(e["AC"], e["AT"])]
    (q3, q6), d36 = M36[(e["VC"], e["VI"], e["VA"], e["CR"], e["IR"], e["AR"])]
    q4, d4 = M4[(e["SC"], e["SI"], e["SA"])]
    q = (q1, q2, q3, q4, EQ5[e["E"]], q6)
    sc, nlow, _ = _interp4(q, d1, d2, d36, d4)
    return sc, q, nlow, d1 + d2 + d36 + d4


# ==================================================================================================
# self test against the official-calculator expectations pinned from the repository's test data
# ==================================================================================================

def selftest(versions=("2", "3", "4")):
    """
    Returns (checked, problems).  A problem means an ORACLE is wrong (harness error, exit 2), never a
    violation of a property.
    """
    from . import ref
    checked, problems = 0, []
    for name, ver, vec, exp in spec.official_vectors():
        if ver not in versions:
            continue
        verdict, prefix, pairs = ref.classify(ver, vec)
        if verdict != ref.OK:
            problems.append((name, vec, "reference grammar rejects an official vector"))
            continue
        m = dict(pairs)
        if ver == "2":
            got = score2(ref.effective2(m))
            # official files list a number where the score is undefined only in 'None' form
            pairs_ = zip(got, exp)
        elif ver == "3":
            got = score3(ref.minor(prefix), ref.effective3(m))
            pairs_ = zip(got, exp)
        else:
            got = (score4(ref.effective4(m)),)
            pairs_ = zip(got, exp[:1])
        for g, x in pairs_:
            if g is None or x is None:
                if ver == "2" and g is None:
                    continue  # undefined v2 score: the expectation files print a number or None
                if g != x:
                    problems.append((name, vec, "got %r expected %r" % (g, x)))
            elif g != x:
                problems.append((name, vec, "got %s expected %s" % (float(g), float(x))))
        checked += 1
    if "4" in versions:
        L = look()
        ks = list(L)
        for a in ks:
            for b in ks:
                if a != b and all(x <= y for x, y in zip(a, b)) and L[a] < L[b]:
                    problems.append(("lookup4", a + "<" + b, "lookup table not monotone"))
    return checked, problems
