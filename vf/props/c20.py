# -*- coding: utf-8 -*-
"""
C20 - identical behaviour on every supported Python (2.7 and 3.6 to 3.13).
Differential: a Hypothesis-generated corpus (constructor inputs, RH strings, texts, interactive
scripts, command lines) is executed by vf/probe27.py under every installed interpreter; the reports
must equal the reference interpreter's (/venv, 3.12), which C01-C17 tie to the oracles.
"""
from __future__ import unicode_literals

import glob
import json
import os

from .. import gen, interact, probe, ref, runner, spec
from ..runner import failure

PID = "C20"
REFERENCE = "/venv/bin/python"
EXPECTED = ("2.7", "3.6", "3.7", "3.8", "3.9", "3.10", "3.11", "3.12", "3.13")


def interpreters():
    out = []
    for p in sorted(glob.glob("/root/.pyenv/versions/*/bin/python")):
        out.append(p)
    return out


def _norm(x):
    x = json.loads(json.dumps(x, sort_keys=True))
    if isinstance(x, dict) and "exc" in x:
        x.pop("msg", None)      # the statement asks for the same error CLASS; message texts are compared where they are output (CLI items)
        x.pop("chained", None)  # implicit exception chaining exists on 3.x only
    return x


NEW_UNICODE = ("\U0001f970", "\U0001f9a5", "\U0001fad0", "\U0001f6dd", "\U0001fae8", "\u0c77", "\u9fef", "\U00016fe4", "\u2e52", "\U0001e030", "\u1c89")


def nonascii_argv(item):
    """command line with a non-ASCII character: 2.7 hands the program bytes.  The same at API level: a NATIVE 2.x string (bytes)
    with a non-ASCII character handed to a constructor"""
    if item[0] == "ctor-native":
        return any(ord(c) > 127 for c in item[2])
    return item[0] in ("cli", "cli-process") and any(ord(c) > 127 for a in item[1] for c in a)


def u180e_answer(item):
    """an answer containing U+180E: white space in the Unicode 5.2 tables of Python 2.7, not in those of 3.x"""
    if item[0] == "interactive":
        return any("\u180e" in a for a in item[3])
    if item[0] in ("cli", "cli-process"):
        return any("\u180e" in a for a in (item[2] or []))
    return False


def check_item(inp):
    """one item under every interpreter vs the reference"""
    item = inp["item"]
    pys = inp.get("interpreters") or interpreters()
    refres = probe.run_probe([item], python=REFERENCE)
    if "error" in refres or not refres.get("import_ok"):
        raise runner.HarnessError("reference interpreter failed: %r" % (refres,))
    want = _norm(refres["results"][0])
    fails = []
    for py in pys:
        r = probe.run_probe([item], python=py)
        if "error" in r:
            fails.append(failure("probe runs", r["error"], note=py))
            continue
        if not r.get("import_ok"):
            fails.append(failure("package imports", r.get("import_error"), note=py))
            continue
        got = _norm(r["results"][0])
        if got != want:
            fails.append(_diff_failure(item, want, got, r.get("python", py)))
    return fails


def float_syntax_item(item):
    """RH item whose score part uses number syntax that float() of different interpreters reads differently:
    underscores (accepted from 3.6 on) or non-ASCII digits (which code points count depends on the Unicode tables)"""
    if item[0] != "rh" or "/" not in item[2]:
        return False
    score = item[2].split("/", 1)[0]
    return "_" in score or any(ord(c) > 127 or c in "\x0b\x0c\x1c\x1d\x1e\x1f" for c in score)


def _diff_failure(item, want, got, pyver):
    key = None
    if pyver.startswith("2.") and u180e_answer(item):
        key = "py2.interactive.u180e-white-space"
    if pyver.startswith("2.") and nonascii_argv(item):
        key = "py2.cli.non-ascii-argv"
    if float_syntax_item(item):
        key = "rh.score-syntax-of-float"
    if isinstance(want, dict) and isinstance(got, dict):
        ks = sorted(k for k in set(want) | set(got) if want.get(k) != got.get(k))
        w = dict((k, want.get(k)) for k in ks[:3])
        g = dict((k, got.get(k)) for k in ks[:3])
    else:
        w, g = want, got
    return failure(w, g, key=key, note="Python %s differs from the reference (3.12) on %s" % (pyver, item[0]))


CHECKS = {"item": check_item}

WITNESSES = [["ctor-native", "3", "CVSS:3.1/AV:N/AC:L/PR:N/UI:N/S:U/C:H/I:H/A:\u00e9"],
             ["cli", ["-3", "--vector=CVSS:3.1/AV:N/AC:L/PR:N/UI:N/S:U/C:H/I:H/A:\u00e9"], None],
             ["interactive", 3.1, False, ["\u180en", "l", "n", "n", "u", "h", "h", "h"]],
             ["interactive", 3.1, False, ["\u00a0n", "l", "n", "n", "u", "h", "h", "h"]],
             ["interactive", 3.1, False, ["\x1cn\x1f", "l", "n", "n", "u", "h", "h", "h"]],
             ["interactive", 4.0, True, ["n", "l", "n", "n", "n", "h", "h", "h", "h", "h", "n"] + [""] * 17 + ["\u0131", "", "", "", ""]],
             ["rh", "2", "1_0.0/AV:N/AC:L/Au:N/C:C/I:C/A:C"],
             ["rh", "3", "\U0001FBF9.8/CVSS:3.1/AV:N/AC:L/PR:N/UI:N/S:U/C:H/I:H/A:H"]]

ASCII_PRINTABLE = "".join(chr(c) for c in range(32, 127))


def _no_surrogates(x, keep_bytes=False):
    """lone surrogates cannot be handed to every interpreter in the same way (narrow 2.7 builds, bytes argv): C04 has them.
    In answer scripts U+DC80..U+DCFF stay: they stand for undecodable bytes"""
    if isinstance(x, type("")):
        return "".join("?" if 0xD800 <= ord(c) <= 0xDFFF and not (keep_bytes and 0xDC80 <= ord(c) <= 0xDCFF) else c for c in x)
    if isinstance(x, list):
        keep = keep_bytes or (len(x) == 4 and x[0] == "interactive")
        return [_no_surrogates(y, keep) for y in x]
    return x


def corpus_part(n_examples, shard):
    """collect a Hypothesis-drawn corpus (no oracle here: pure generation)"""
    from hypothesis import given, strategies as st
    part = runner.Part(PID)
    items = []

    @st.composite
    def item(draw):
        kind = draw(st.sampled_from(("ctor-valid", "ctor-valid", "ctor-mutant", "ctor-native", "ctor-long", "cli-long", "cli-new-unicode", "ctor-text", "ctor-cross", "rh", "rh-bad", "rh-near", "rh-float-syntax", "rh-long-score", "rh-long-score", "text",
                                     "interactive", "cli-vector", "cli-vector", "cli-interactive")))
        ver = draw(gen.version_key())
        if kind == "ctor-valid":
            return kind, ["ctor", ver, draw(gen.valid(ver))]
        if kind == "ctor-mutant":
            return kind, ["ctor", ver, draw(gen.mutated(ver))[0]]
        if kind == "ctor-native":
            s0 = draw(st.one_of(gen.valid(ver), gen.mutated(ver, max_edits=2).map(lambda t: t[0])))
            if draw(st.integers(0, 2)) == 0:
                i = draw(st.integers(0, len(s0)))
                s0 = s0[:i] + draw(st.sampled_from(("\u00e9", "\u2026", "\u00a0", "\u0416"))) + s0[i:]
            return kind, ["ctor-native", ver, s0]
        if kind == "ctor-long":
            return kind, ["ctor", ver, draw(gen.lengthened(ver))]
        if kind == "cli-long":
            v = "".join(c if c in ASCII_PRINTABLE else "?" for c in draw(gen.lengthened(ver)))
            flags = draw(st.sampled_from(([], ["-j"], ["-a"], ["-n"])))
            return kind, ["cli", ["-" + ver] + flags + ["--vector=" + v], None]
        if kind == "cli-new-unicode":
            # rejected command-line vectors that carry a character of a recent Unicode version: whatever quotes, escapes, classifies or
            # case-maps the input with the interpreter's own tables prints something else on older interpreters
            v = draw(st.one_of(gen.valid(ver), gen.mutated(ver, max_edits=1).map(lambda t: t[0]), gen.valid(draw(gen.version_key()))))
            v = "".join(c if c in ASCII_PRINTABLE else "?" for c in v)
            c = draw(st.sampled_from(NEW_UNICODE))
            i = draw(st.integers(0, len(v)))
            v = draw(st.sampled_from((v[:i] + c + v[i:], v + c, c + v, v + "/" + c, v.replace("/", "//", 1) + c, v + " " + c, "see " + c + " " + v)))
            flags = draw(st.sampled_from(([], ["-j"], ["-a", "-n"])))
            return kind, ["cli", draw(st.sampled_from((["-" + ver], [], ["-3"]))) + flags + ["--vector=" + v], None]
        if kind == "ctor-text":
            return kind, ["ctor", ver, draw(st.text(alphabet=st.characters(blacklist_categories=("Cs",)), max_size=30))]
        if kind == "ctor-cross":
            return kind, ["ctor", ver, draw(gen.valid(draw(gen.version_key())))]
        if kind == "rh":
            v = draw(gen.valid(ver))
            return kind, ["rh", ver, "%.1f/%s" % (draw(st.integers(0, 100)) / 10.0, v)]
        if kind == "rh-near":
            # a number that is (nearly) the true base score, written with many digits: float formatting and parsing
            # details of the interpreter must not decide acceptance
            from .. import scorecheck
            v = draw(gen.valid(ver))
            base = scorecheck.as_floats(scorecheck.expected_scores(ver, v))[0]
            delta = draw(st.sampled_from((0.0, 1e-14, -1e-14, 2e-15, 1e-13, -1e-13, 1e-12, 1e-9, -1e-7, 1e-5, 0.04)))
            fmt = draw(st.sampled_from(("%r", "%.17g", "%.15g", "%.13f", "%.14f", "%.12g", "%.20f")))
            return kind, ["rh", ver, (fmt % (base + delta)) + "/" + v]
        if kind == "rh-float-syntax":
            from .. import scorecheck
            v = draw(gen.valid(ver))
            base = scorecheck.as_floats(scorecheck.expected_scores(ver, v))[0]
            t = "%.1f" % base
            alt = draw(st.sampled_from((t.replace(".", "_."), t[0] + "_" + t[1:], "0_" + t, t + "_0", t.replace(t[0], chr(0x1FBF0 + int(t[0])), 1) if t[0].isdigit() else t,
                                        t + "\x1c", "\x1f" + t, t + "\x0b", "\x0c" + t, t + "\u180e", t + "\x85")))
            return kind, ["rh", ver, alt + "/" + v]
        if kind == "rh-long-score":
            from .. import scorecheck
            v = draw(gen.valid(ver))
            t = "%.1f" % scorecheck.as_floats(scorecheck.expected_scores(ver, v))[0]
            n = draw(st.sampled_from((100, 4301, 5000, 20000)))
            return kind, ["rh", ver, draw(st.sampled_from((t + "0" * n, "0" * n + t, t + "0" * n + "1"))) + "/" + v]
        if kind == "rh-bad":
            sc = draw(st.sampled_from(("", "x", "nan", "7.50", " 7.5", "1e1", "10", "-0.0", "7,5", "٣")))
            return kind, ["rh", ver, sc + draw(st.sampled_from(("/", "", "|"))) + draw(gen.mutated(ver))[0]]
        if kind == "text":
            from . import c13
            return kind, ["text", draw(c13.text_strategy())[0]]
        if kind == "interactive":
            version = draw(st.sampled_from(interact.VERSIONS))
            allm = draw(st.booleans())
            V = spec.VERS[interact.verkey(version)]
            order = interact.probe_order(version, allm) or list(V.order if allm else V.mandatory)
            answers, meta = draw(interact.script_strategy(version, allm, order))
            if draw(st.integers(0, 4)) == 0 and answers:
                # an answer with bytes that are not valid UTF-8 (written as U+DC80..U+DCFF): never a legal value
                junk = draw(st.sampled_from(("\udcff", "\udcc3", "\udc80", "\udce2\udc82", "\udcfe")))
                vals, _ = interact.model(interact.verkey(version), order, answers)
                m0 = order[0]
                chosen = vals[0][1] if vals else None
                others = [v for v in V.table[m0] if v != chosen] or list(V.table[m0])
                v2 = draw(st.sampled_from(others))      # ANOTHER legal value of the first question, spoilt by the bytes: must be asked again
                answers = [draw(st.sampled_from((junk + v2, v2 + junk, v2[:1] + junk + v2[1:])))] + answers
                return "interactive-bytes", ["interactive", version, allm, answers]
            return kind, ["interactive", version, allm, answers]
        from . import c17
        while True:
            inp, mode, nflags = draw(c17.case_strategy())
            argv = [a.replace("\x00", "?") for a in inp["argv"]]
            if draw(st.integers(0, 5)) == 0 and any(a.startswith("--vector=") for a in argv):
                # characters of recent Unicode versions (10 ... 15): what an interpreter's own tables say about them differs
                argv = [a + draw(st.sampled_from(NEW_UNICODE)) if a.startswith("--vector=") else a for a in argv]
            if kind == "cli-vector" and inp["stdin"] is None:
                return kind, ["cli", argv, None]
            if kind == "cli-interactive" and inp["stdin"] is not None:
                return kind, ["cli", argv, inp["stdin"]]

    @runner.seeded(20, shard)
    @runner.hyp_settings(n_examples, shrink=False)
    @given(item())
    def t(c):
        kind, it = c
        items.append((kind, _no_surrogates(it)))
    runner.run_hyp(part, t, "C20.corpus")
    part.extra["items"] = [items]
    return part


def eval_part(py, items):
    r = probe.run_probe(items, python=py, timeout=1800)
    return (py, r)


def run(tier, t0):
    part = runner.Part(PID)
    n = 3200 if tier == "quick" else 64000
    gen_part = runner.hyp_shards("vf.props.c20", "corpus_part", n)
    part.harness_errors.extend(gen_part.harness_errors)
    tagged = [x for chunk in gen_part.extra.get("items", []) for x in chunk]
    # de-duplicate, keep order
    seen, corpus = set(), []
    for kind, it in tagged:
        k = json.dumps(it, sort_keys=True)
        if k not in seen:
            seen.add(k)
            corpus.append((kind, it))
    # scoring arithmetic under every interpreter: members of every one of the 270 v4 macrovectors (uniform sampling rarely visits
    # the thin ones; integer vs true division, rounding of x.x5 ties ... differ for few of them) and seeded v2 / v3 classes
    import random
    from .. import oracles, spec
    from . import c09
    rng = random.Random(runner.mix(runner.SEED, 2020))
    for key in sorted(oracles.look()):
        for _ in range(3 if tier == "quick" else 40):
            corpus.append(("ctor-v4-macrovector", ["ctor", "4", gen.realise4(rng, oracles.random_in_macro(rng, key))]))
    for ver in ("2", "3"):
        for _ in range(400 if tier == "quick" else 8000):
            corpus.append(("ctor-score-class", ["ctor", ver, c09._rand_class(rng, ver)]))
    # rejected command-line vectors that mix characters every output stream can encode, characters only some can, and undecodable
    # bytes: how the message is printed must not depend on the interpreter
    bits = ("\u00e9", "\udcff", "\u6f22", "\U0001f600", "\udc80\udcfe", "x")
    for flag in ("-2", "-3", "-4", None):
        for i, a in enumerate(bits):
            for b in bits[i + 1:]:
                for pre in ("CVSS:3.1/AV:", "AV:N/", ""):
                    corpus.append(("cli-mixed-encodability", ["cli", ([flag] if flag else []) + ["--vector=" + pre + a + b], None]))
                    if pre and (i + len(corpus)) % 3 == 0:
                        # ... and as a real child process of every interpreter (real standard streams)
                        corpus.append(("cli-real-process", ["cli-process", ([flag] if flag else []) + ["--vector=" + pre + a + b], None]))
    for j, (flag, vec) in enumerate((("-2", "AV:N/AC:L/Au:N/C:P/I:P/A:P"), ("-3", "CVSS:3.0/AV:N/AC:L/PR:N/UI:N/S:U/C:H/I:H/A:H/E:P"), (None, "CVSS:3.1/AV:N/AC:L/PR:N/UI:N/S:C/C:H/I:H/A:H"),
                                     ("-4", "CVSS:4.0/AV:N/AC:L/AT:N/PR:N/UI:N/VC:H/VI:H/VA:H/SC:N/SI:N/SA:N"), ("-4", "CVSS:3.1/AV:N"), ("-2", ""))):
        for extra in ([], ["-j"], ["-a", "-n", "-j"]):
            corpus.append(("cli-real-process", ["cli-process", ([flag] if flag else []) + extra + ["--vector=" + vec], None]))
    corpus.append(("cli-real-process", ["cli-process", ["-2", "-n"], ["n", "l", "n", "p", "p", "p"]]))
    corpus.append(("cli-real-process", ["cli-process", ["-n"], ["n", "l", "n", "n", "u", "h"]]))        # early end of input
    # answers made of the characters whose case mappings differ between upper(), lower() and casefold(), or between the Unicode
    # tables of the interpreters (dotted / dotless i, long s, Kelvin and Angstrom signs, sharp s, ligatures ...): each question is
    # answered with the character first and with a legal value next
    from .. import spec as _spec
    for ch in ("\u0130", "\u0131", "\u017f", "\u212a", "\u212b", "\u00df", "\u1e9e", "\ufb01", "\u01f0", "\u0149", "i\u0307", "\u03a3", "\u03c2"):
        for version, allm in ((2, True), (3.1, True), (4.0, True), (3.0, False)):
            V = _spec.VERS[interact.verkey(version)]
            order = interact.probe_order(version, allm) or list(V.order if allm else V.mandatory)
            answers = []
            for m in order:
                answers += [ch, list(V.table[m])[0]]
            corpus.append(("interactive-case-mapping", ["interactive", version, allm, answers]))
    # witnesses of the listed known finding (non-ASCII answers are decoded differently on 2.7): replayed every run
    for it in WITNESSES:
        corpus.append(("interactive-nonascii", it))
    items = [it for _, it in corpus]
    pys = interpreters()
    found = []
    for p in pys:
        found.append(os.path.basename(os.path.dirname(os.path.dirname(p))))
    missing = [e for e in EXPECTED if not any(f.startswith(e + ".") for f in found)]
    # split the corpus in chunks so that all cores are used: (interpreter, chunk) jobs
    nchunks = max(1, min(8, len(items) // 200))
    chunks = [items[i::nchunks] for i in range(nchunks)]
    jobs = [(py, ch) for py in [REFERENCE] + pys for ch in chunks]
    res = runner.parallel("vf.props.c20", "eval_part", jobs, procs=runner.NPROC)
    by = {}
    for (py, ch), r in zip(jobs, res):
        if isinstance(r, runner.Part):
            part.merge(r)
            continue
        by.setdefault(py, []).append(r[1])
    refs = by.get(REFERENCE, [])
    if len(refs) != nchunks or any("error" in r or not r.get("import_ok") for r in refs):
        raise runner.HarnessError("reference interpreter failed: %r" % [r.get("error") or r.get("import_error") for r in refs])
    kinds = dict((json.dumps(it, sort_keys=True), kind) for kind, it in corpus)
    for ci, ch in enumerate(chunks):
        want = [_norm(x) for x in refs[ci]["results"]]
        for it, w in zip(ch, want):
            kind = kinds[json.dumps(it, sort_keys=True)]
            nt = it[0] in ("cli", "interactive") or not (isinstance(w, dict) and "exc" in w)
            part.count({"item": it}, nontrivial=nt, classes=("kind:" + kind,), distinct=False)
        part.evaluations += len(ch) * len(pys)       # every item is executed by every interpreter
        for py in pys:
            r = by.get(py, [None] * nchunks)[ci]
            if r is None or "error" in r:
                part.add_failures("item", {"item": ch[0], "interpreters": [py]}, [failure("probe runs under %s" % py, (r or {}).get("error"))])
                continue
            if not r.get("import_ok"):
                part.add_failures("item", {"item": ch[0], "interpreters": [py]}, [failure("package imports under %s" % py, r.get("import_error"))])
                continue
            part.classes["python:" + r["python"]] += len(ch)
            got = [_norm(x) for x in r["results"]]
            bad = [(it, w, g) for it, w, g in zip(ch, want, got) if w != g]
            # report the smallest differing item per (interpreter, item kind)
            smallest = {}
            for it, w, g in bad:
                k = (it[0], u180e_answer(it), float_syntax_item(it), nonascii_argv(it))
                if k not in smallest or len(json.dumps(it)) < len(json.dumps(smallest[k][0])):
                    smallest[k] = (it, w, g)
            for it, w, g in smallest.values():
                part.add_failures("item", {"item": it, "interpreters": [py]}, [_diff_failure(it, w, g, r["python"])])
    if missing:
        part.notes.append("interpreters not installed (claim is lowered, not a violation): %s" % missing)
    rule = ("Hypothesis-drawn corpus: constructor inputs (valid in any spelling, mutants, arbitrary Unicode text, vectors of "
            "another version) for CVSS2/3/4, RH strings (numeric and odd score parts), texts (C13 generator), interactive "
            "(version, all_metrics, answer script) triples, command lines (C17 generator, argv restricted to printable ASCII "
            "because 2.7 receives argv as bytes) with and without stdin scripts; every item executed by every interpreter; "
            "non-trivial = CLI/interactive item or item the reference does not reject; distinct by hash. evaluations counts "
            "item x interpreter executions.")
    return runner.finish(part, tier, t0, rule,
                         ["reference interpreter: /venv/bin/python (3.12), tied to the specification by C01-C17",
                          "hash() values and the key order of unsorted dicts are not observables; text-extraction results compared sorted",
                          "interpreters found: %s" % ", ".join(found)],
                         required=["kind:" + k for k in ("ctor-valid", "ctor-mutant", "ctor-native", "ctor-long", "cli-long", "cli-new-unicode", "ctor-text", "ctor-cross", "rh", "rh-bad", "rh-near", "rh-float-syntax", "rh-long-score", "text", "interactive", "interactive-bytes", "cli-vector", "cli-interactive", "interactive-nonascii")]
                         + ["python:" + f for f in found],
                         extra={"interpreters": found + ["venv-3.12 (reference)"], "corpus_items": len(items)})
