# -*- coding: utf-8 -*-
"""
C18 - a constructed object is an immutable value with total, pure accessors.
Stateful (Hypothesis RuleBasedStateMachine): one accepted vector per case, rules are accessor calls
and mutations of returned dictionaries; after every step each accessor must return what a TWIN object
(same string, that accessor being its very first call) returned.
The replayable unit is the list of operations: {"ver","s","ops":[...]}.
"""
from __future__ import unicode_literals

from .. import gen, obs, ref, runner, spec
from ..runner import failure

PID = "C18"


def accessors(ver):
    A = {
        "scores": lambda o: o.scores(),
        "severities": lambda o: o.severities(),
        "clean_vector": lambda o: o.clean_vector(),
        "rh_vector": lambda o: o.rh_vector(),
        "hash": lambda o: hash(o),
        "json": lambda o: list(o.as_json().items()),
        "json_sort": lambda o: list(o.as_json(sort=True).items()),
        "json_minimal": lambda o: list(o.as_json(minimal=True).items()),
        "json_sort_minimal": lambda o: list(o.as_json(sort=True, minimal=True).items()),
    }
    if ver != "2":
        A["clean_vector_noprefix"] = lambda o: o.clean_vector(output_prefix=False)
    if ver in ("2", "3"):
        A["temporal_vector"] = lambda o: o.temporal_vector()
        A["environmental_vector"] = lambda o: o.environmental_vector()
    return A


MUTATIONS = ("clear", "overwrite", "add", "pop", "nested")


def _mutate(d, how):
    if how == "clear":
        d.clear()
    elif how == "overwrite":
        for k in list(d):
            d[k] = "MUTATED"
    elif how == "add":
        d["injected"] = 1
    elif how == "pop":
        if d:
            d.pop(sorted(d)[0])
    elif how == "nested":
        d["vectorString"] = None
        d["baseScore"] = -1.0


FOREIGN = ("none", "string", "int", "own-class", "other-class", "other-version-object", "object", "json-dict", "scores-tuple", "list",
           "sibling-swap", "sibling-swap", "sibling-value", "sibling-fewer", "sibling-more")


def sibling(token, ver, s):
    """another vector of the SAME version next to s: one optional metric swapped for another one (same number of metrics, same
    base metrics), one value changed, one metric fewer, one more.  Deterministic in (token, s)."""
    prefix, m = ref.parse(ver, s)
    V = spec.VERS[ver]
    h = runner.h64(s)
    d = dict(m)
    defined = [k for k in V.optional if d.get(k, V.nd) != V.nd]
    free = [k for k in V.optional if k not in d]
    pick = lambda xs, salt: xs[(h >> salt) % len(xs)]
    newval = lambda k: [x for x in V.table[k] if x != V.nd][(h >> 20) % len([x for x in V.table[k] if x != V.nd])]
    if token in ("sibling-swap", "sibling-fewer") and defined:
        del d[pick(defined, 3)]
    if token in ("sibling-swap", "sibling-more") and free:
        k = pick(free, 7)
        d[k] = newval(k)
    if token == "sibling-value" or d == m:
        k = pick(list(V.mandatory), 11)
        d[k] = [x for x in V.table[k] if x != m[k]][(h >> 15) % (len(V.table[k]) - 1)]
    return ref.build(prefix, d, [k for k in V.order if k in d])


def foreign(token, ver, s, o):
    """comparands of other types, named by a token so that the sequence stays a plain JSON list"""
    cl = obs.classes()
    other = {"2": "3", "3": "4", "4": "2"}[ver]
    if token.startswith("sibling"):
        return cl[ver](sibling(token, ver, s))
    if token == "none":
        return None
    if token == "string":
        return s
    if token == "int":
        return 7
    if token == "own-class":
        return cl[ver]
    if token == "other-class":
        return cl[other]
    if token == "other-version-object":
        V = spec.VERS[other]
        return cl[other](ref.build(V.prefixes[-1], dict((k, V.table[k][0]) for k in V.mandatory), list(V.mandatory)))
    if token == "object":
        return object()
    if token == "json-dict":
        return o.as_json()
    if token == "scores-tuple":
        return o.scores()
    return [o]


def check_ops(inp):
    ver, s, ops = inp["ver"], inp["s"], inp["ops"]
    for b in inp.get("before") or ():
        # sequences on OTHER objects executed earlier in the process (a failure that needs them was found that way)
        try:
            check_ops({"ver": b["ver"], "s": b["s"], "ops": b["ops"]})
        except BaseException:  # noqa
            pass
    ref.parse(ver, s)
    C = obs.classes()[ver]
    A = accessors(ver)
    # reference results: twin objects on which the accessor is the very first call
    first = {}
    for name, f in A.items():
        try:
            first[name] = f(C(s))
        except BaseException as e:  # noqa
            return [failure("accessor %s returns" % name, "%s: %s" % (type(e).__name__, e))]
    o = C(s)
    twin = C(s)
    fails = []
    history = []
    for op in ops:
        kind = op[0]
        history.append(op)
        try:
            if kind == "call":
                r = A[op[1]](o)
                if r != first[op[1]]:
                    fails.append(failure(first[op[1]], r, note="%s after %s" % (op[1], history[-6:-1])))
            elif kind == "mutate":
                d = o.as_json(sort=op[2], minimal=op[3])
                _mutate(d, op[1])
            elif kind == "eq":
                if not (o == twin) or not (twin == o) or hash(o) != hash(twin) or (o != twin):
                    fails.append(failure("object equals its twin", "not equal", note="after %s" % history[-6:-1]))
            elif kind == "clone":
                c = obs.clone(o, op[1])
                if c is not None:
                    o = c               # the sequence goes on with the copy: it is the same value
            elif kind == "respelled":
                # an EQUAL object written differently (fields reversed, Not Defined optionals toggled) is used in between
                prefix, m = ref.parse(ver, s)
                V = spec.VERS[ver]
                d2 = dict(m)
                for k in V.optional:
                    if d2.get(k, V.nd) == V.nd:
                        if k in d2:
                            del d2[k]
                        elif (len(k) + len(s)) % 2:
                            d2[k] = V.nd
                y = C(ref.build(prefix, d2, [k for k in reversed(V.order) if k in d2]))
                for name in sorted(A):
                    A[name](y)
            elif kind == "others":
                # n other objects of the version are created and used in between (whatever is memoised with a bound gets evicted)
                import random
                rng = random.Random(op[2])
                for _ in range(op[1]):
                    z = C(gen.rng_vector(rng, ver))
                    for name in ("hash", "clean_vector", "json", "json_sort_minimal", "scores"):
                        A[name](z)
            elif kind == "compare_foreign":
                x = foreign(op[1], ver, s, o)
                r = [bool(o == x), bool(o != x), bool(x == o), bool(x != o)]
                f = C(s)                     # what a fresh object answers (WHICH answer is right is C07's business)
                want = [bool(f == x), bool(f != x), bool(x == f), bool(x != f)]
                if r != want:
                    fails.append(failure(want, r, note="==, != against a %s, both ways round, after %s" % (op[1], history[-6:-1])))
        except BaseException as e:  # noqa
            fails.append(failure("no exception", "%s: %s" % (type(e).__name__, e), note="step %r after %s" % (op, history[-6:-1])))
        if fails:
            return fails
    # final sweep: every accessor once more
    for name, f in sorted(A.items()):
        try:
            r = f(o)
        except BaseException as e:  # noqa
            return [failure("accessor %s returns" % name, "%s: %s" % (type(e).__name__, e), note="after the sequence")]
        if r != first[name]:
            return [failure(first[name], r, note="%s after the whole sequence" % name)]
    return []


def check_shared(inp):
    """
    ONE object shared by 2-4 threads, each calling a list of accessors, interleaved at line granularity by
    the deterministic scheduler (vf.sched): an immutable value must give every thread the sequential answers.
    """
    import os
    import cvss
    from .. import sched
    ver, s = inp["ver"], inp["s"]
    C = obs.classes()[ver]
    A = dict(accessors(ver))
    twin = C(s)
    A["eq_twin"] = lambda o: [bool(o == twin), bool(twin == o), hash(o) == hash(twin)]
    first = dict((n, f(C(s))) for n, f in A.items())
    o = C(s)

    def job(names):
        def run():
            return [A[n](o) for n in names]
        return run
    S = sched.Sched([job(names) for names in inp["threads"]], inp["schedule"],
                    os.path.dirname(os.path.abspath(cvss.__file__)), inp.get("tail_quantum"))
    res = S.run()
    inp["_switches"] = S.switches
    fails = []
    for names, r in zip(inp["threads"], res):
        if isinstance(r, dict) and "thread_exc" in r:
            fails.append(failure("no exception", r["thread_exc"], note="thread calling %s on the shared object" % names))
            continue
        for n, x in zip(names, r):
            if x != first[n]:
                fails.append(failure(first[n], x, note="%s on an object shared between threads" % n))
                break
    return fails


CHECKS = {"ops": check_ops, "shared": check_shared}


def others_part(shard, n, seed):
    """accessor calls, then an equal object in another spelling and 0 / 140 / 300 / 1100 other objects in between, then the calls again"""
    import random
    part = runner.Part(PID)
    rng = random.Random(runner.mix(seed, 181, shard))
    for i in range(n):
        ver = spec.VKEYS[(i + shard) % 3]
        names = sorted(accessors(ver))
        s = gen.rng_vector(rng, ver, p_opt=0.5)
        ops = [["call", rng.choice(names)] for _ in range(rng.randrange(0, 4))]
        ops.append(["respelled"])
        k = (0, 140, 300, 1100)[(i // 3 + shard) % 4]
        if k:
            ops.append(["others", k, rng.randrange(1 << 20)])
            if rng.random() < 0.5:
                ops.append(["respelled"])
        ops += [["call", nm] for nm in rng.sample(names, min(4, len(names)))]
        inp = {"ver": ver, "s": s, "ops": ops}
        part.count(inp, nontrivial=True, classes=("other-objects-in-between", "others=%d" % k))
        part.check("ops", check_ops, inp)
    return part


def shared_part(n_examples, shard):
    from hypothesis import given, strategies as st
    part = runner.Part(PID)

    @st.composite
    def case(draw):
        ver = draw(gen.version_key())
        s = draw(gen.valid(ver))
        names = sorted(accessors(ver)) + ["eq_twin"]
        n = draw(st.integers(2, 4))
        threads = [draw(st.lists(st.sampled_from(names), min_size=1, max_size=4)) for _ in range(n)]
        schedule = [list(x) for x in draw(st.lists(st.tuples(st.integers(0, n - 1), st.integers(1, 25)), min_size=3, max_size=60))]
        tail = draw(st.sampled_from((None, 2, 5, 11, 37)))
        return {"ver": ver, "s": s, "threads": threads, "schedule": schedule, "tail_quantum": tail}

    @runner.seeded(18, 500 + shard)
    @runner.hyp_settings(n_examples)
    @given(case())
    def t(inp):
        inp = dict(inp)
        ok = part.check("shared", check_shared, inp, hyp=True)
        sw = inp.pop("_switches", 0)
        part.count(inp, nontrivial=sw >= 3, classes=("shared-object", "shared:switches>=3" if sw >= 3 else "shared:switches<3"))
    runner.run_hyp(part, t, "C18.shared")
    return part


import collections  # noqa: E402
RECENT = collections.deque(maxlen=40)
FAILED = []


def hyp_part(n_examples, shard, steps):
    """
    The state machine only GENERATES the operation sequence (rules append to a list); the invariant
    executes check_ops on the prefix, so that a failure shrinks as a sequence and the saved replay is
    a plain list of operations.
    """
    from hypothesis import strategies as st
    from hypothesis.stateful import RuleBasedStateMachine, initialize, invariant, rule, run_state_machine_as_test
    from hypothesis import seed
    part = runner.Part(PID)

    class Machine(RuleBasedStateMachine):
        def __init__(self):
            RuleBasedStateMachine.__init__(self)
            self.ver = None
            self.s = None
            self.ops = []
            self.C = None
            self.o = None
            self.first = None
            self.repeat_after_other = False
            self.mutated = False

        @initialize(c=gen.version_key().flatmap(lambda v: st.tuples(st.just(v), gen.valid(v))))
        def init(self, c):
            self.ver, self.s = c
            self.A = accessors(self.ver)
            C = obs.classes()[self.ver]
            self.first = dict((n, f(C(self.s))) for n, f in self.A.items())
            self.o = C(self.s)
            self.twin = C(self.s)

        def _fail(self, exp, got, note):
            inp = {"ver": self.ver, "s": self.s, "ops": list(self.ops)}
            FAILED.append((inp, failure(exp, got, note=note)))
            raise runner.Falsified("ops", inp, [failure(exp, got, note=note)])

        @rule(data=st.data())
        def call(self, data):
            name = data.draw(st.sampled_from(sorted(self.A)))
            if any(op[0] == "call" and op[1] == name for op in self.ops) and self.ops and self.ops[-1] != ["call", name]:
                self.repeat_after_other = True
            self.ops.append(["call", name])
            try:
                r = self.A[name](self.o)
            except BaseException as e:  # noqa
                self._fail("no exception", "%s: %s" % (type(e).__name__, e), "accessor %s" % name)
            if r != self.first[name]:
                self._fail(self.first[name], r, "%s differs from its first-call value" % name)

        @rule(how=st.sampled_from(MUTATIONS), sort=st.booleans(), minimal=st.booleans())
        def mutate(self, how, sort, minimal):
            self.ops.append(["mutate", how, sort, minimal])
            self.mutated = True
            try:
                _mutate(self.o.as_json(sort=sort, minimal=minimal), how)
            except BaseException as e:  # noqa
                self._fail("no exception", "%s: %s" % (type(e).__name__, e), "as_json + dict mutation")

        @rule()
        def eq(self):
            self.ops.append(["eq"])
            o, twin = self.o, self.twin
            if not (o == twin) or not (twin == o) or hash(o) != hash(twin) or (o != twin):
                self._fail("object equals its twin", "not equal", "eq/hash against a twin")

        @rule(how=st.sampled_from(obs.CLONERS))
        def clone(self, how):
            self.ops.append(["clone", how])
            c = obs.clone(self.o, how)
            if c is not None:
                self.o = c
                self.cloned = True

        @rule(token=st.sampled_from(FOREIGN))
        def compare_foreign(self, token):
            self.ops.append(["compare_foreign", token])
            self.foreign = True
            try:
                x = foreign(token, self.ver, self.s, self.o)
                r = [bool(self.o == x), bool(self.o != x), bool(x == self.o), bool(x != self.o)]
                f = obs.classes()[self.ver](self.s)
                want = [bool(f == x), bool(f != x), bool(x == f), bool(x != f)]
            except BaseException as e:  # noqa
                self._fail("no exception", "%s: %s" % (type(e).__name__, e), "== / != against a %s" % token)
            if r != want:
                self._fail(want, r, "==, != against a %s differs from a fresh object's answer" % token)

        def teardown(self):
            if self.s is None:
                return
            inp = {"ver": self.ver, "s": self.s, "ops": list(self.ops)}
            if getattr(self, "cloned", False):
                part.classes["continued-with-a-copy"] += 1
            if getattr(self, "foreign", False):
                part.classes["compared-with-foreign-type"] += 1
            part.count(inp, nontrivial=(self.repeat_after_other or self.mutated) and len(self.ops) >= 3,
                       classes=("v" + self.ver, "mutated" if self.mutated else "no-mutation", "len>=10" if len(self.ops) >= 10 else "len<10"))
            fails = check_ops(inp)     # final sweep through the replayable check itself
            RECENT.append(inp)
            if fails:
                FAILED.append((inp, fails[0]))
                raise runner.Falsified("ops", inp, fails)

    import hypothesis.errors as he
    try:
        run_state_machine_as_test(seed(runner.mix(runner.SEED, 18, shard))(Machine),
                                  settings=runner.hyp_settings(n_examples, stateful_step_count=steps))
    except runner.Falsified as f:
        for x in f.failures:
            v = {"check": f.check, "input": f.inp}
            v.update(x)
            part.violations.append(v)
    except he.Flaky as e:
        # a failure that the library could not replay: it depends on what EARLIER cases did to other objects (state shared
        # between objects).  Judge the candidates in fresh processes: alone, then preceded by one of the recent cases.
        found = False
        for inp, fl in FAILED[:4]:
            if runner.fresh_fails(PID, "ops", inp):
                part.add_failures("ops", inp, [fl])
                found = True
                break
            for prev in list(RECENT)[::-1][:12]:
                cand = dict(inp, before=[prev])
                if prev is not inp and runner.fresh_fails(PID, "ops", cand):
                    fl2 = dict(fl, note=(fl.get("note") or "") + " [only after a sequence on ANOTHER object earlier in the process: state is shared between objects]")
                    part.add_failures("ops", cand, [fl2])
                    found = True
                    break
            if found:
                break
        if not found:
            part.harness_errors.append("C18 machine: %s: %s" % (type(e).__name__, str(e)[:400]))
    except (he.Unsatisfiable, he.FailedHealthCheck, he.InvalidArgument) as e:
        part.harness_errors.append("C18 machine: %s: %s" % (type(e).__name__, str(e)[:400]))
    return part


def run(tier, t0):
    if tier == "quick":
        part = runner.hyp_shards("vf.props.c18", "hyp_part", 3600, args=(30,))
        part.merge(runner.hyp_shards("vf.props.c18", "shared_part", 3200))
    else:
        part = runner.hyp_shards("vf.props.c18", "hyp_part", 32000, args=(50,))
        part.merge(runner.hyp_shards("vf.props.c18", "shared_part", 64000))
    for p in runner.parallel("vf.props.c18", "others_part", [(sh, 24 if tier == "quick" else 200, runner.SEED) for sh in range(runner.NPROC)]):
        part.merge(p)
    rule = ("one accepted vector per case (any version, any spelling) and a generated sequence of operations: each public "
            "accessor (scores, severities, clean_vector in both modes, rh_vector, sub-vectors, as_json with each option pair, "
            "hash), ==/hash against a twin, and mutation of a freshly returned as_json() dict (clear / overwrite / add / pop / "
            "overwrite vectorString and baseScore). non-trivial = sequence of >= 3 steps that repeats an accessor after a "
            "different one or after a dict mutation; distinct by hash of (vector, sequence). Second generator: ONE object "
            "shared by 2-4 threads that call accessor lists under a drawn line-level schedule (vf.sched); non-trivial = >= 3 "
            "forced thread switches. Third: accessor calls, an equal object in another spelling and 0-1100 other objects used in between, the calls again")
    return runner.finish(part, tier, t0, rule,
                         ["only observable results are compared (vars(obj) is not: benign memoisation must not alarm)"],
                         required=("v2", "v3", "v4", "mutated", "len>=10", "compared-with-foreign-type", "continued-with-a-copy", "shared-object", "shared:switches>=3", "other-objects-in-between", "others=1100"))
