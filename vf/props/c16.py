# -*- coding: utf-8 -*-
"""
C16 - the interactive builder returns exactly the answered, valid vector.
Model-based: Hypothesis draws (version, all_metrics, no_colors, answer script); the reference dialogue
model (vf.interact.model) consumes the same answers; result, number of answers consumed and
end-of-input behaviour must agree.  A covering part selects every legal value of every metric.
"""
from __future__ import unicode_literals

from .. import interact, obs, runner, spec
from ..runner import failure

PID = "C16"


def check_dialogue(inp):
    version, allm, nocol, answers = inp["version"], inp["all_metrics"], inp.get("no_colors", True), inp["answers"]
    ver = interact.verkey(version)
    V = spec.VERS[ver]
    r = interact.run_builder(version, allm, nocol, answers, tty=bool(inp.get("tty")))
    want_set = set(V.order if allm else V.mandatory)
    if r["kind"] == "exc":
        return [failure("a vector or EOFError", r["value"], note="exception escaped from the builder")]
    if r["kind"] == "eof":
        order = interact.probe_order(version, allm)
        if order is None:
            return [failure("builder completes on a full answer cycle", "probe failed")]
        vals, used = interact.model(ver, order, answers)
        if vals is not None:
            return [failure("vector %s" % (interact.expected_prefix(version) + "/".join("%s:%s" % mv for mv in vals)),
                            "EOFError after %d answers" % r["consumed"],
                            note="the script answers every question legally, yet the builder kept asking")]
        return []
    res = r["value"]
    prefix = interact.expected_prefix(version)
    if not isinstance(res, type("")) or not res.startswith(prefix):
        return [failure("string starting with %r" % prefix, repr(res))]
    fields = res[len(prefix):].split("/")
    got = []
    for f in fields:
        if f.count(":") != 1:
            return [failure("metric:value fields", res)]
        got.append(tuple(f.split(":")))
    metrics = [m for m, _ in got]
    fails = []
    if sorted(metrics) != sorted(want_set):
        return [failure(sorted(want_set), metrics, note="each metric of the requested set must be asked/returned exactly once")]
    vals, used = interact.model(ver, metrics, answers)
    if vals is None:
        return [failure("EOFError (answers run out for the model)", res, note="builder returned although a question had no legal answer")]
    if vals != got:
        fails.append(failure(prefix + "/".join("%s:%s" % mv for mv in vals), res, note="returned vector is not made of exactly the accepted answers"))
    if used != r["consumed"]:
        fails.append(failure(used, r["consumed"], note="number of answers consumed (questions asked incl. repeats)"))
    k, o = obs.construct(ver, res)
    if k != "ok":
        fails.append(failure("accepted by the class", k, note=res))
    return fails


HOST = r"""
import json, sys
lead = int(sys.argv[1])
seen = [sys.stdin.readline() for _ in range(lead)]          # the host program reads its own lines first, through the text layer
import cvss
version = json.loads(sys.argv[2])
try:
    r = {"ret": cvss.ask_interactively(version, sys.argv[3] == "1", True)}
except EOFError:
    r = {"eof": True}
except BaseException as e:
    r = {"exc": "%s: %s" % (type(e).__name__, e)}
sys.stderr.write("\nRESULT " + json.dumps(r) + "\n")
"""


def check_piped(inp):
    """
    the builder called by a host PROGRAM in a real child process: standard input is a pipe that already holds everything, and the
    host has read `lead` lines of its own from it before it calls the builder.  The result must be what the model makes of the
    remaining lines.
    """
    import json
    import subprocess
    import sys
    version, allm, answers, lead = inp["version"], inp["all_metrics"], inp["answers"], inp["lead"]
    ver = interact.verkey(version)
    data = ("".join("host line %d\n" % i for i in range(lead)) + "".join(a + "\n" for a in answers)).encode("utf-8")
    env = dict(__import__("os").environ, PYTHONPATH=runner.REPO, PYTHONIOENCODING="utf-8")
    p = subprocess.run([sys.executable, "-c", HOST, str(lead), json.dumps(version), "1" if allm else "0"], input=data, stdout=subprocess.PIPE,
                       stderr=subprocess.PIPE, env=env, cwd="/", timeout=120)
    err = p.stderr.decode("utf-8", "replace")
    if "RESULT " not in err:
        return [failure("a result", "exit %s: %s" % (p.returncode, err[-300:]))]
    r = json.loads(err[err.rindex("RESULT ") + 7:].split("\n")[0])
    order = interact.probe_order(version, allm)
    if order is None:
        raise runner.HarnessError("builder probe failed")
    vals, used = interact.model(ver, order, answers)
    if vals is None:
        want = {"eof": True}
    else:
        want = {"ret": interact.expected_prefix(version) + "/".join("%s:%s" % mv for mv in vals)}
    if "exc" in r or ("eof" in want) != ("eof" in r):
        return [failure(want, r, note="host program read %d line(s) from the pipe first" % lead)]
    if "ret" in want:
        got = sorted(r["ret"][len(interact.expected_prefix(version)):].split("/"))
        if not r["ret"].startswith(interact.expected_prefix(version)) or got != sorted(want["ret"][len(interact.expected_prefix(version)):].split("/")):
            return [failure(want, r, note="host program read %d line(s) from the pipe first" % lead)]
    return []


CHECKS = {"dialogue": check_dialogue, "piped": check_piped}


def piped_part(shard, n, seed):
    import random
    part = runner.Part(PID)
    rng = random.Random(runner.mix(seed, 1616, shard))
    for i in range(n):
        version = interact.VERSIONS[(shard + i) % len(interact.VERSIONS)]
        allm = bool((shard + i) % 2)
        V = spec.VERS[interact.verkey(version)]
        order = interact.probe_order(version, allm) or list(V.order if allm else V.mandatory)
        answers = []
        for m in order:
            if rng.random() < 0.3:
                answers.append(rng.choice(("?", "zz", "", " ", m + ":" + V.table[m][0], "\u00e9")))
            v = rng.choice(V.table[m])
            answers.append(rng.choice((v, v.lower(), " " + v, v + "\t")))
        if rng.random() < 0.2:
            answers = answers[:rng.randrange(len(answers))]
        if i % 4 == 3:
            answers = ["x" * 200] * 60 + answers          # more than one 8 KiB read-ahead chunk of rejected answers first
        inp = {"version": version, "all_metrics": allm, "answers": answers, "lead": (0, 1, 1, 3)[i % 4]}
        part.count(inp, nontrivial=True, classes=("real pipe", "real pipe: host read %d line(s) first" % inp["lead"]))
        part.check("piped", check_piped, inp)
    return part


def covering_cases():
    """for every (version form, metric, value): a script that selects it (others: first legal value)"""
    out = []
    for version in (2, 3.0, 3.1, 4.0):
        ver = interact.verkey(version)
        V = spec.VERS[ver]
        for allm in (False, True):
            order = interact.probe_order(version, allm) or list(V.order if allm else V.mandatory)
            for m in order:
                for v in V.table[m]:
                    for form in (v, v.lower()):
                        answers = [(form if x == m else V.table[x][0]) for x in order]
                        out.append({"version": version, "all_metrics": allm, "no_colors": True, "answers": answers,
                                    "selects": "%s:%s" % (m, v)})
    return out


def long_retry_cases():
    """deterministic: very long runs of rejected answers to ONE question (first, middle and last question); a question
    must be repeated 'until the answer is legal' however long that takes"""
    out = []
    junk = ["?", "zz", "0", " ", "NO", "nd?", "x1"]
    for version in (2, 3.0, 3.1, 4.0):
        ver = interact.verkey(version)
        V = spec.VERS[ver]
        for allm in (False, True):
            order = interact.probe_order(version, allm) or list(V.order if allm else V.mandatory)
            for pos, n in ((0, 1500), (len(order) // 2, 400), (len(order) - 1, 3000)):
                answers = []
                for i, m in enumerate(order):
                    if i == pos:
                        bad = [junk[j % len(junk)] for j in range(n)]
                        answers.extend(a for a in bad if interact.legal_answer(ver, m, a) is None)
                    answers.append(V.table[m][-1])
                out.append({"version": version, "all_metrics": allm, "no_colors": True, "answers": answers})
    return out


def hyp_part(n_examples, shard):
    from hypothesis import given, strategies as st
    part = runner.Part(PID)

    @st.composite
    def case(draw):
        version = draw(st.sampled_from(interact.VERSIONS))
        allm = draw(st.booleans())
        ver = interact.verkey(version)
        V = spec.VERS[ver]
        order = interact.probe_order(version, allm) or list(V.order if allm else V.mandatory)
        answers, meta = draw(interact.script_strategy(version, allm, order))
        meta["tty"] = draw(st.booleans())
        return version, allm, draw(st.booleans()), answers, meta

    @runner.seeded(16, shard)
    @runner.hyp_settings(n_examples)
    @given(case())
    def t(c):
        version, allm, nocol, answers, meta = c
        classes = ["version=%r" % (version,), "all" if allm else "mandatory-only"]
        if meta["retries"]:
            classes.append("retry")
        if meta["empties"]:
            classes.append("empty-answer")
        if meta["truncated"]:
            classes.append("truncated")
        inp = {"version": version, "all_metrics": allm, "no_colors": nocol, "answers": answers, "tty": meta["tty"]}
        classes.append("streams-claim-tty" if meta["tty"] else "streams-not-tty")
        if meta["tty"] and meta["truncated"]:
            classes.append("eof-at-tty")
        part.count(inp, nontrivial=bool(meta["retries"] or meta["empties"]), classes=classes)
        part.check("dialogue", check_dialogue, inp, hyp=True)
    runner.run_hyp(part, t, "C16.hyp")
    return part


def run(tier, t0):
    part = runner.Part(PID)
    cov = covering_cases()
    for c in cov:
        inp = dict((k, c[k]) for k in ("version", "all_metrics", "no_colors", "answers"))
        part.count(None, classes=("covering",))
        part.check("dialogue", check_dialogue, inp)
    for inp in long_retry_cases():
        part.count(None, classes=("long-retry",))
        part.nontrivial_count += 1
        part.check("dialogue", check_dialogue, inp)
    part.merge(runner.hyp_shards("vf.props.c16", "hyp_part", 3200 if tier == "quick" else 120000))
    for p in runner.parallel("vf.props.c16", "piped_part", [(sh, 4 if tier == "quick" else 40, runner.SEED) for sh in range(runner.NPROC)]):
        part.merge(p)
    from ..fuzz import driver
    fuzz_note = driver.campaign(part, "dialogue", runs=160000 if tier == "quick" else 1500000, only=("dialogue",))
    rule = ("version in {2, 3, 3.0, 3.1, 4, 4.0} x all_metrics x no_colors x answer script (per question 0-3 rejected-looking "
            "answers: junk text, values of other metrics, empty where illegal, value+suffix; then a legal value in random "
            "letter case/padding or empty for Not Defined); 10% truncated scripts (EOF). Covering part: every legal value of "
            "every metric selected in upper and lower case; runs of 400-3000 rejected answers to a single question. non-trivial = script with a retry or an empty answer; distinct by hash")
    return runner.finish(part, tier, t0, rule,
                         ["asking order is taken from the returned vector (any order is accepted as long as the result is made of the accepted answers); prompts/banners are not asserted",
                          "invalid answers are drawn from ASCII plus a few non-ASCII characters without ASCII case mappings",
                          "coverage-guided: " + fuzz_note],
                         required=["real pipe", "atheris-execs:dialogue", "covering", "long-retry", "eof-at-tty", "streams-claim-tty", "retry", "empty-answer", "truncated", "all", "mandatory-only"] + ["version=%r" % (v,) for v in interact.VERSIONS])
