# -*- coding: utf-8 -*-
"""
C11 - JSON output is faithful to the object; sort and minimal only reorder / omit.
Oracle: model document built from the reference parser, the exact score oracles and the pinned
value-name table (vf.spec.VALUE_NAMES / JSON_KEYS).
"""
from __future__ import unicode_literals

from .. import gen, obs, ref, runner, scorecheck, spec
from ..runner import failure

PID = "C11"
SCORE_KEYS = {"2": ("baseScore", "temporalScore", "environmentalScore"),
              "3": ("baseScore", "temporalScore", "environmentalScore"), "4": ("baseScore",)}
SEV_KEYS = {"2": (), "3": ("baseSeverity", "temporalSeverity", "environmentalSeverity"), "4": ("baseSeverity",)}


def model_value_names(ver, m):
    """metric -> tuple of accepted names for the value effective for that metric"""
    V = spec.VERS[ver]
    names = spec.VALUE_NAMES[ver]
    out = {}
    for k in V.order:
        v = m.get(k, V.nd)
        if k in V.mandatory:
            v = m[k]
        elif v == V.nd and k in spec.MODIFIED.get(ver, {}):
            v = m[spec.MODIFIED[ver][k]]        # Not Defined Modified metric: base metric's value
        n = names[k][v]
        out[k] = n if isinstance(n, tuple) else (n,)
    return out


def group_keys(ver):
    """group name -> set of JSON keys that belong to it (metric fields + its score/severity)"""
    V = spec.VERS[ver]
    K = spec.JSON_KEYS[ver]
    g = {}
    for name, metrics in V.groups.items():
        keys = set(K[m] for m in metrics)
        if ver in ("2", "3") and name in ("temporal", "environmental"):
            keys.add(name + "Score")
            if ver == "3":
                keys.add(name + "Severity")
        g[name] = keys
    return g


def check_json(inp):
    ver, s = inp["ver"], inp["s"]
    prefix, m = ref.parse(ver, s)
    V = spec.VERS[ver]
    K = spec.JSON_KEYS[ver]
    exp_scores = scorecheck.as_floats(scorecheck.expected_scores(ver, s))
    band = spec.band2 if ver == "2" else spec.band34
    names = model_value_names(ver, m)
    want_version = spec.JSON_VERSION["3." + str(ref.minor(prefix)) if ver == "3" else ver]
    # another spelling of the same assignment is serialised first: documents must not be shared between objects
    twin = obs.classes()[ver](ref.build(prefix, m, [k for k in V.order if k in m]))
    import copy
    held = []
    for sort in (False, True):
        for minimal in (False, True):
            d = twin.as_json(sort=sort, minimal=minimal)
            held.append((sort, minimal, d, copy.deepcopy(list(d.items()))))      # the caller keeps these while other objects are serialised
    o = obs.classes()[ver](s)
    docs = {}
    fails = []
    # in which order the four documents are asked for, and which other accessors were called before, is a function of the case
    h = runner.h64(s)
    order4 = [(False, False), (False, True), (True, False), (True, True)]
    order4 = order4[h % 4:] + order4[:h % 4]
    from . import c18
    A_ = c18.accessors(ver)
    names_ = sorted(n for n in A_ if not n.startswith("json"))
    for i in range((h >> 4) % 3):
        A_[names_[(h >> (8 + 8 * i)) % len(names_)]](o)
    for sort, minimal in order4:
        if True:
            j = o.as_json(sort=sort, minimal=minimal)
            tag = "sort=%s,minimal=%s" % (sort, minimal)
            docs[(sort, minimal)] = j
            if j.get("version") != want_version:
                fails.append(failure(want_version, j.get("version"), note="%s version" % tag))
            if j.get("vectorString") != s or type(j.get("vectorString")) is not type(s):
                fails.append(failure(s, j.get("vectorString"), note="%s vectorString must be the string supplied" % tag))
            for i, key in enumerate(SCORE_KEYS[ver]):
                if key in j and exp_scores[i] is not None:
                    if j[key] != exp_scores[i] or type(j[key]) is not float:
                        fails.append(failure(exp_scores[i], repr(j[key]), note="%s %s" % (tag, key)))
                elif key in j and exp_scores[i] is None and j[key] is not None:
                    # an UNDEFINED v2 score (scores() says None) reported as a number: there is no 'corresponding defined score' it could equal
                    fails.append(failure("no %s field (or null) for an undefined score" % key, repr(j[key]), key="v2.json.undefined-score-as-zero",
                                         note="%s: scores() reports None for this slot" % tag))
            for i, key in enumerate(SEV_KEYS[ver]):
                if key in j:
                    want = band(exp_scores[i])
                    if not isinstance(j[key], type("")) or j[key].upper() != want.upper():
                        fails.append(failure(want, repr(j[key]), note="%s %s" % (tag, key)))
            for k in V.order:
                key = K[k]
                if key in j and j[key] not in names[k]:
                    fails.append(failure(list(names[k]), repr(j[key]), note="%s field %s (metric %s, input value %s)" % (tag, key, k, m.get(k))))
            # base fields are never missing
            for k in V.mandatory:
                if K[k] not in j:
                    fails.append(failure("field %s present" % K[k], "missing", note=tag))
            if "baseScore" not in j:
                fails.append(failure("baseScore present", "missing", note=tag))
            if sort:
                keys = list(j.keys())
                if keys != sorted(keys) or len(set(keys)) != len(keys):
                    fails.append(failure("keys strictly ascending", keys, note=tag))
    # an object obtained through the other public entry point (Red Hat notation) must serialise identically
    C = obs.classes()[ver]
    try:
        orh = C.from_rh_vector("%.1f/%s" % (exp_scores[0], s))
    except BaseException as e:  # noqa
        orh = None
        fails.append(failure("from_rh_vector(<base score>/<vector>) succeeds", "%s: %s" % (type(e).__name__, e)))
    if orh is not None:
        for (sort, minimal), j in docs.items():
            jr = orh.as_json(sort=sort, minimal=minimal)
            if list(jr.items()) != list(j.items()) and dict(jr) != dict(j):
                diff = sorted(set((k, repr(v)) for k, v in jr.items()) ^ set((k, repr(v)) for k, v in j.items()))
                fails.append(failure("same document as the constructor-built object", diff[:4], note="object built by from_rh_vector, sort=%s minimal=%s" % (sort, minimal)))
                break
    # sort=True changes nothing but the order
    for minimal in (False, True):
        a, b = docs[(False, minimal)], docs[(True, minimal)]
        if dict(a) != dict(b):
            diff = sorted(set(a.items()) ^ set(b.items()), key=repr)
            fails.append(failure("same items with and without sort", diff[:6], note="minimal=%s" % minimal))
    # minimal=True only removes whole groups, never one with a defined metric
    groups = group_keys(ver)
    for sort in (False, True):
        full, mini = docs[(sort, False)], docs[(sort, True)]
        for k, v in mini.items():
            if k not in full or full[k] != v:
                fails.append(failure("minimal output is a sub-dictionary of the full output", [k, v], note="sort=%s" % sort))
        removed = set(full) - set(mini)
        for name, keys in groups.items():
            gone = removed & keys
            present_in_full = keys & set(full)
            if gone and gone != present_in_full:
                fails.append(failure("whole %s group removed or kept" % name, sorted(gone), note="sort=%s kept %s" % (sort, sorted(present_in_full - gone))))
            if gone and any(m.get(x, V.nd) != V.nd for x in V.groups[name]):
                fails.append(failure("%s group kept (a metric of it has a defined value)" % name, "removed: %s" % sorted(gone), note="sort=%s" % sort))
            removed -= keys
        if removed:
            fails.append(failure("only temporal/environmental group fields removed", sorted(removed), note="sort=%s" % sort))
    # documents handed out earlier (for another object) are the caller's: serialising this object must not have touched them
    for sort, minimal, d, snap in held:
        if list(d.items()) != snap:
            diff = sorted(k for k in set(dict(snap)) | set(d) if dict(snap).get(k) != d.get(k))
            fails.append(failure(dict((k, dict(snap).get(k)) for k in diff[:4]), dict((k, d.get(k)) for k in diff[:4]),
                                 note="a document returned earlier by ANOTHER object's as_json(sort=%s, minimal=%s) changed while this object was serialised" % (sort, minimal)))
            break
    # the documented signature is as_json(sort=False, minimal=False): the same arguments by position (a signature that refuses
    # positional arguments is not judged)
    for args in ((True,), (True, False), (False, True), (True, True)):
        try:
            jp = o.as_json(*args)
        except TypeError:
            continue
        jk = docs[(args[0], args[1] if len(args) > 1 else False)]
        if list(jp.items()) != list(jk.items()):
            fails.append(failure(list(jk)[:6], list(jp)[:6], note="as_json%r differs from as_json(sort=%s, minimal=%s)" % (args, args[0], args[1] if len(args) > 1 else False)))
            break
    # the same object reached through the object protocol (copy, deepcopy, pickle round trip): it still is "the object built from
    # the string supplied"; ways of copying that are not available are left out
    for how in (obs.CLONERS if inp.get("copies", True) else ()):
        c = obs.clone(o, how)
        if c is None:
            continue
        for (sort, minimal), j in docs.items():
            try:
                jc = c.as_json(sort=sort, minimal=minimal)
            except BaseException as e:  # noqa
                fails.append(failure("as_json of a copy returns", "%s: %s" % (type(e).__name__, e), note=how))
                break
            if list(jc.items()) != list(j.items()):
                diff = sorted(k for k in set(j) | set(jc) if j.get(k) != jc.get(k)) or "key order"
                fails.append(failure(dict((k, j.get(k)) for k in diff) if diff != "key order" else list(j), dict((k, jc.get(k)) for k in diff) if diff != "key order" else list(jc),
                                     note="as_json(sort=%s, minimal=%s) of a copy (%s) differs from the original's" % (sort, minimal, how)))
                break
    seen, out = set(), []
    for f in fails:
        k = (repr(f["expected"]), repr(f["observed"]))
        if k not in seen:
            seen.add(k)
            out.append(f)
    return out


def check_json_accepted(inp):
    """
    the statement quantifies over ACCEPTED vectors: a string the constructor accepts although it is outside the grammar
    (C04's business; none on a tree where C04 holds) must still be identified by its JSON: vectorString is the string
    supplied, and sort only reorders.  Metric fields of such strings have no specification and are not judged.
    """
    ver, s = inp["ver"], inp["s"]
    if ref.classify(ver, s)[0] == ref.OK:
        return check_json(inp)
    k, o = obs.construct(ver, s)
    if k != "ok":
        return []
    inp["_accepted"] = True
    fails = []
    for minimal in (False, True):
        try:
            j, js = o.as_json(sort=False, minimal=minimal), o.as_json(sort=True, minimal=minimal)
        except BaseException as e:  # noqa
            return [failure("as_json returns", "%s: %s" % (type(e).__name__, e), note="the constructor accepted %r" % s)]
        for doc in (j, js):
            if doc.get("vectorString") != s:
                fails.append(failure(s, doc.get("vectorString"), note="vectorString must be the string supplied (accepted although outside the grammar)"))
        if dict(j) != dict(js) or list(js) != sorted(js):
            fails.append(failure("sort=True only reorders, ascending", [list(j), list(js)]))
    return fails[:1]


CHECKS = {"json": check_json, "json_accepted": check_json_accepted}


def ball_part(shard, n_seeds, seed):
    from . import c04
    part = runner.Part(PID)
    found, tried = c04.accepted_outside_grammar(shard, n_seeds, seed, 11)
    part.count(None, classes=("one-edit-ball-member-tried",), n=tried)
    for ver, t in found[:200]:
        part.classes["ball-member-accepted-outside-grammar"] += 1
        part.check("json_accepted", check_json_accepted, {"ver": ver, "s": t})
    return part


def zero_biased(ver):
    """vectors whose scores are 0.0 although temporal/environmental metrics are defined"""
    from hypothesis import strategies as st
    V = spec.VERS[ver]

    @st.composite
    def s(draw):
        prefix, d, order = draw(gen.valid_parts(ver))
        d = dict(d)
        if ver == "2":
            k = draw(st.integers(0, 2))
            if k == 0:
                d["TD"] = "N"
            elif k == 1:
                d.update({"C": "N", "I": "N", "A": "N"})
                d["E"] = draw(st.sampled_from(("U", "POC", "F", "H")))
            else:
                d.update({"C": "N", "I": "N", "A": "N"})
                d["CDP"] = draw(st.sampled_from(("N", "L", "ND")))
                d["CR"] = draw(st.sampled_from(("L", "M", "H")))
        elif ver == "3":
            k = draw(st.integers(0, 1))
            if k == 0:
                d.update({"C": "N", "I": "N", "A": "N"})
                d["RL"] = draw(st.sampled_from(("O", "T", "W", "U")))
            else:
                d.update({"MC": "N", "MI": "N", "MA": "N"})
        else:
            d.update({"VC": "N", "VI": "N", "VA": "N", "SC": "N", "SI": "N", "SA": "N"})
            for k in ("MVC", "MVI", "MVA", "MSC", "MSI", "MSA"):
                d.pop(k, None)
        return prefix, d, gen.ordered(set(d), V.order, draw(gen.order_seed()))
    return s()


def sweep_work(shard, n, seed):
    """seeded random classes of the score quotients in random spellings (C09's sampler): cheap breadth"""
    import random
    from . import c09
    part = runner.Part(PID)
    rng = random.Random(runner.mix(seed, 11, shard))
    for ver in spec.VKEYS:
        for i in range(n):
            v = c09._rand_class(rng, ver)
            part.check("json", check_json, {"ver": ver, "s": v, "copies": i % 8 == 0})      # the breadth sweep copies every eighth object
            part.evaluations += 1
            part.nontrivial_count += 1
            part.classes["sweep:v" + ver] += 1
    return part


def hyp_part(n_examples, shard):
    from hypothesis import given, strategies as st
    part = runner.Part(PID)

    @runner.seeded(11, shard)
    @runner.hyp_settings(n_examples)
    @given(gen.version_key().flatmap(lambda v: st.tuples(st.just(v), st.one_of(gen.valid_parts(v), gen.valid_parts(v), zero_biased(v)))))
    def t(c):
        ver, (prefix, d, order) = c
        V = spec.VERS[ver]
        s = ref.build(prefix, d, order)
        exp = scorecheck.as_floats(scorecheck.expected_scores(ver, s))
        classes = ["v" + ver]
        if any(x == 0.0 for x in exp[1:]) or (ver == "4" and exp[0] == 0.0):
            classes.append("zero-score-in-optional-slot")
        if any(d.get(k, V.nd) == V.nd and k in d for k in V.optional):
            classes.append("explicit-ND")
        if any(k in spec.MODIFIED.get(ver, {}) and d.get(k, V.nd) != V.nd for k in V.optional):
            classes.append("modified-defined")
        part.count({"ver": ver, "s": s}, nontrivial=any(d.get(k, V.nd) != V.nd for k in V.optional), classes=classes)
        part.check("json", check_json, {"ver": ver, "s": s}, hyp=True)
    runner.run_hyp(part, t, "C11.hyp")

    @runner.seeded(11, 100 + shard)
    @runner.hyp_settings(max(1, n_examples // 2))
    @given(gen.version_key().flatmap(lambda v: st.tuples(st.just(v), gen.mutated(v, max_edits=2))))
    def t2(c):
        ver, (s, ops) = c
        inp = {"ver": ver, "s": s}
        part.check("json_accepted", check_json_accepted, inp, hyp=True)
        acc = inp.pop("_accepted", False)
        part.count(inp, nontrivial=acc, classes=("mutant", "mutant-accepted-by-library" if acc else "mutant-rejected-or-grammar"))
    runner.run_hyp(part, t2, "C11.hyp.mutants")
    return part


def run(tier, t0):
    from . import c10
    part = runner.Part(PID)
    for ver, s in c10.covering():
        part.count(None, classes=("covering",))
        part.check("json", check_json, {"ver": ver, "s": s})
    part.merge(runner.hyp_shards("vf.props.c11", "hyp_part", 4800 if tier == "quick" else 100000))
    for p in runner.parallel("vf.props.c11", "sweep_work", [(sh, 4000 if tier == "quick" else 20000, runner.SEED) for sh in range(runner.NPROC)]):
        part.merge(p)
    for p in runner.parallel("vf.props.c11", "ball_part", [(sh, 2 if tier == "quick" else 12, runner.SEED) for sh in range(runner.NPROC)]):
        part.merge(p)
    rule = ("accepted vectors (2/3 uniform, 1/3 biased to zero scores: v2 TD:N or no impact with temporal/environmental "
            "metrics, v3 zero (modified) impact, v4 no impact) x all four (sort, minimal) combinations inside each case; "
            "covering set of every (metric, value); sweep of seeded random quotient classes in random spellings (C09's "
            "sampler); mutants (<= 2 edits) and complete one-edit neighbourhoods of accepted vectors: whatever the constructor "
            "accepts outside the grammar must echo the supplied string. non-trivial = at least one optional metric defined "
            "(mutants: accepted by the library); distinct by hash (sweep classes counted)")
    return runner.finish(part, tier, t0, rule,
                         ["value names: upper-snake names of the FIRST schemas; v4 field names pinned from the pinned commit (the statement does not fix them, the existing tests do)",
                          "a v2 score that is undefined constrains nothing; severity strings compared case-insensitively"],
                         required=("covering", "v2", "v3", "v4", "zero-score-in-optional-slot", "explicit-ND", "modified-defined", "sweep:v2", "sweep:v3", "sweep:v4", "mutant", "one-edit-ball-member-tried"))
