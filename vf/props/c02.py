# -*- coding: utf-8 -*-
"""
C02 - CVSS v4.0 score equals the macrovector / interpolation algorithm evaluated exactly.
Thorough: all 15,116,544 effective assignments; quick: ~10% of the tails above each of the 144
(AV,PR,UI,AC,AT) heads plus, for every macrovector, its highest- and lowest-severity members.
"""
from __future__ import unicode_literals

import itertools
import random

from .. import gen, oracles, runner, scorecheck

PID = "C02"
CHECKS = {"score4": scorecheck.check_score("4")}

DOM = [("AV", "NALP"), ("PR", "NLH"), ("UI", "NPA"), ("AC", "LH"), ("AT", "NP"),
       ("VC", "HLN"), ("VI", "HLN"), ("VA", "HLN"), ("SC", "HLN"), ("SI", "SHLN"), ("SA", "SHLN"),
       ("CR", "HML"), ("IR", "HML"), ("AR", "HML"), ("E", "APU")]
KEYS = [k for k, _ in DOM]
HEADS = list(itertools.product(*[d for _, d in DOM[:5]]))
TAILS = None


def tails():
    global TAILS
    if TAILS is None:
        TAILS = list(itertools.product(*[d for _, d in DOM[5:]]))
    return TAILS


def work(hi, tier, seed):
    # every second unit is computed in a fresh non-main thread: a score must not depend on thread-local state
    if hi % 2:
        return runner.in_thread(_work, hi, tier, seed)
    return _work(hi, tier, seed)


def _work(hi, tier, seed):
    import cvss
    CVSS4 = cvss.CVSS4
    part = runner.Part(PID)
    rng = random.Random(runner.mix(seed, 2, hi))
    head = HEADS[hi]
    T = tails()
    if tier == "thorough":
        idx = range(len(T))
    else:
        idx = rng.sample(range(len(T)), 10400)
    wf = scorecheck.well_formed_float
    n = nt = 0
    macros = set()
    cls = part.classes
    for i in idx:
        e = dict(zip(KEYS, head + T[i]))
        exp, q, nlow, dsum = oracles.fast4(e)
        v = gen.realise4(rng, e)
        try:
            got = CVSS4(v).scores()
            ok = got == (exp,) and wf(got[0])
        except Exception:
            ok = False
        n += 1
        if not ok:
            part.bad.append(v)
        if q is None:
            cls["zero-impact"] += 1
        else:
            macros.add(q)
            if dsum > 0 and nlow > 0:
                nt += 1
            cls["n_lower=%d" % nlow] += 1
            cls["eq3eq6=%d%d" % (q[2], q[5])] += 1
        if len(part.samples) < 1 and hi % 29 == 0 and q is not None and dsum > 2:
            part.samples.append({"vector": v, "score": exp, "macrovector": "".join(map(str, q))})
    part.evaluations = n
    part.nontrivial_count = nt
    part.extra["macros"] = macros
    return part


def strat_work(shard, per_macro, seed):
    """macrovector-stratified classes: the same number of random members for each of the 270 macrovectors (uniform
    sampling of assignments almost never visits the thin ones), random spelling, fresh thread for odd shards"""
    if shard % 2:
        return runner.in_thread(_strat, shard, per_macro, seed)
    return _strat(shard, per_macro, seed)


def _strat(shard, per_macro, seed):
    import cvss
    CVSS4 = cvss.CVSS4
    part = runner.Part(PID)
    rng = random.Random(runner.mix(seed, 22, shard))
    keys = sorted(oracles.look())[shard::runner.NPROC]
    wf = scorecheck.well_formed_float
    for key in keys:
        for _ in range(per_macro):
            e = oracles.random_in_macro(rng, key)
            exp, q, nlow, dsum = oracles.fast4(e)
            v = gen.realise4(rng, e)
            try:
                got = CVSS4(v).scores()
                ok = got == (exp,) and wf(got[0])
            except Exception:
                ok = False
            part.evaluations += 1
            if not ok:
                part.bad.append(v)
            if q is not None and dsum > 0 and nlow > 0:
                part.nontrivial_count += 1
        part.classes["macrovector-stratified"] += per_macro
    return part


def hyp_part(n_examples, shard):
    from hypothesis import given
    part = runner.Part(PID)
    fn = CHECKS["score4"]

    @runner.seeded(2, shard)
    @runner.hyp_settings(n_examples)
    @given(gen.valid("4"))
    def t(v):
        part.count(None, classes=("hypothesis",))
        part.check("score4", fn, {"vector": v}, hyp=True)
    runner.run_hyp(part, t, "C02.hyp")
    return part


def extremes(part):
    """for each macrovector: its highest- and lowest-severity members, plain spelling (deterministic)"""
    fn = CHECKS["score4"]
    lv = oracles.LV4

    # members per EQ level from the derived tables
    def members(D, keys):
        out = {}
        for L, info in D.items():
            ms = sorted(info["dist"].items(), key=lambda kv: kv[1])
            best = [m for m, d in ms if d == 0]
            worst = [m for m, d in ms if d == ms[-1][1]]
            out[L] = [dict(zip(keys, (lv[k][i] for k, i in zip(keys, m)))) for m in (best[0], worst[0])]
        return out
    m1, m2, m36, m4 = (members(oracles.D1, oracles.K1), members(oracles.D2, oracles.K2),
                       members(oracles.D36, oracles.K36), members(oracles.D4, oracles.K4))
    n = 0
    for q1 in m1:
        for q2 in m2:
            for q36 in m36:
                for q4 in m4:
                    for E in "APU":
                        for which in (0, 1):
                            e = {}
                            e.update(m1[q1][which]); e.update(m2[q2][which]); e.update(m36[q36][which]); e.update(m4[q4][which])
                            e["E"] = E
                            v = gen.realise4(random.Random(n), e, shuffle=False, noise=False)
                            part.count(None, classes=("macrovector-extreme",))
                            part.check("score4", fn, {"vector": v})
                            n += 1
    return n


def run(tier, t0):
    n, problems = oracles.selftest(("4",))
    if problems:
        raise runner.HarnessError("oracle self-test failed: %r" % problems[:3])
    part = runner.Part(PID)
    for p in runner.parallel("vf.props.c02", "work", [(h, tier, runner.SEED) for h in range(len(HEADS))]):
        part.merge(p)
    for p in runner.parallel("vf.props.c02", "strat_work", [(sh, 300 if tier == "quick" else 3000, runner.SEED) for sh in range(runner.NPROC)]):
        part.merge(p)
    scorecheck.record_bad_vectors(part, "4", "score4", CHECKS["score4"], part.bad)
    extremes(part)
    part.merge(runner.hyp_shards("vf.props.c02", "hyp_part", 3200 if tier == "quick" else 48000))
    macros = part.extra.get("macros", set())
    if len(macros) != 270:
        part.harness_errors.append("only %d of the 270 macrovectors were reached" % len(macros))
    rule = ("effective v4 assignments (AV,PR,UI,AC,AT,VC,VI,VA,SC,SI',SA',CR,IR,AR,E with SI',SA' incl. Safety), each "
            "realised by one seeded random spelling (value through the base metric or a Modified metric over a "
            "different base value, defaults explicit / X / omitted, supplemental noise, shuffled order); "
            "non-trivial = non-zero-impact class with a positive severity distance and at least one existing "
            "lower macrovector (interpolation happens); classes distinct by construction")
    required = ["zero-impact", "n_lower=0", "n_lower=5", "eq3eq6=00", "eq3eq6=01", "eq3eq6=10", "eq3eq6=11",
                "eq3eq6=21", "macrovector-extreme", "macrovector-stratified", "hypothesis"]
    return runner.finish(
        part, tier, t0, rule,
        ["270-entry macrovector lookup table is a pinned copy (cannot be re-derived offline); highest-severity "
         "vectors and depths are derived from the EQ definitions, not copied from the library",
         "oracle self-tested against %d official vectors; fibre above each class sampled (C05/C06)" % n],
        exhaustive=(tier == "thorough"), required=required,
        extra={"quotient_size": 144 * 104976, "macrovectors_reached": len(macros)})
