# -*- coding: utf-8 -*-
"""
C19 - results depend only on the input: no hidden state or ambient dependence.

Four generated dimensions:
  histories   Hypothesis state machine of API calls (accepted / rejected constructions, RH parsing,
              serialisation, text extraction, interactive and CLI runs); after every step a fixed probe
              set must give the results a FRESH interpreter process gave, a deep snapshot of every
              module-level object of cvss.*, the decimal context, sys.path and warnings.filters must
              be unchanged, and API calls must not have written to stdout/stderr.  Everything a case
              computed is afterwards compared with a fresh process that evaluates it in another order.
  schedules   2-4 threads under the deterministic line-level scheduler (vf.sched) with a drawn
              schedule; results must equal the sequential results.  Plus a free-running stress.
  hash seeds  the probe process under several PYTHONHASHSEED values.
  decimal     constructions under ambient contexts prec in {28,29,34,50,200} x 8 rounding modes must
              equal the exact oracles, and must leave the context as installed.
"""
from __future__ import unicode_literals

import decimal
import io
import json
import random
import os
import sys
import threading
import warnings

from .. import gen, interact, oracles, probe, ref, runner, scorecheck, spec
from ..runner import failure

PID = "C19"

FIXED_PROBE = [
    ["ctor", "2", "AV:L/AC:L/Au:M/C:N/I:P/A:C/E:U/RL:W/TD:L"],
    ["ctor", "3", "CVSS:3.0/AV:N/AC:L/PR:L/UI:R/S:U/C:H/I:H/A:H/MS:C/MPR:H/CR:H/IR:H/AR:H/E:P"],
    ["ctor", "3", "CVSS:3.1/AV:N/AC:L/PR:L/UI:R/S:U/C:H/I:H/A:H/MS:C/MPR:H/CR:H/IR:H/AR:H/E:P"],
    ["ctor", "4", "CVSS:4.0/AV:L/AC:H/AT:N/PR:N/UI:N/VC:L/VI:N/VA:H/SC:L/SI:H/SA:H/MSI:S/E:P/U:Red"],
    ["ctor", "2", "AV:L/AC:L/Au:M/C:N/I:P"],
    ["ctor", "3", "CVSS:3.2/AV:N/AC:L/PR:L/UI:R/S:C/C:H/I:L/A:N"],
    ["ctor", "4", "CVSS:4.0/AV:L/AC:H/AT:N/PR:N/UI:N/VC:L/VI:N/VA:H/SC:L/SI:H/SA:H/SA:N"],
    ["rh", "3", "6.4/CVSS:3.1/AV:N/AC:L/PR:N/UI:R/S:C/C:H/I:H/A:N"],
    ["rh", "2", "5.0/AV:L/AC:L/Au:M/C:N/I:P/A:C"],
    ["text", "see AV:L/AC:L/Au:M/C:N/I:P/A:C, CVSS:3.0/AV:N/AC:L/PR:N/UI:R/S:C/C:H/I:H/A:N and AV:L/AC:L/Au:M/C:N/I:P/A:C."],
]


def _norm(x):
    return json.loads(json.dumps(x, sort_keys=True))


_LOCAL = {}


def local_eval(item):
    if "mod" not in _LOCAL:
        _LOCAL["mod"] = probe.local_results(None)
    return _norm(_LOCAL["mod"].evaluate(item))


# ---- snapshots of process-global state --------------------------------------------------------------

def deep(x, depth=0):
    if depth > 8:
        return "<deep>"
    if isinstance(x, dict):
        return (type(x).__name__, tuple((deep(k, depth + 1), deep(v, depth + 1)) for k, v in x.items()))
    if isinstance(x, (list, tuple)):
        return (type(x).__name__, tuple(deep(v, depth + 1) for v in x))
    if isinstance(x, (set, frozenset)):
        return (type(x).__name__, tuple(sorted(repr(deep(v, depth + 1)) for v in x)))
    return (type(x).__name__, repr(x))


def func_state(f):
    """hidden state a function can carry: attributes, (mutable) defaults, closure cells, lru_cache statistics"""
    out = []
    try:
        out.append(("attrs", deep(dict(getattr(f, "__dict__", {}) or {}))))
        out.append(("defaults", deep(getattr(f, "__defaults__", None)), deep(getattr(f, "__kwdefaults__", None))))
        cl = getattr(f, "__closure__", None)
        if cl:
            cells = []
            for c in cl:
                try:
                    cells.append(deep(c.cell_contents) if not callable(c.cell_contents) else "callable")
                except ValueError:
                    cells.append("<empty>")
            out.append(("closure", tuple(cells)))
        if hasattr(f, "cache_info"):
            out.append(("cache_info", repr(f.cache_info())))
    except Exception as e:  # noqa
        out.append(("unreadable", repr(e)))
    return tuple(out)


def snapshot():
    import types
    snap = {}
    for name in sorted(sys.modules):
        if name != "cvss" and not name.startswith("cvss."):
            continue
        mod = sys.modules[name]
        if mod is None:
            continue
        for k, v in sorted(vars(mod).items()):
            if k.startswith("__"):
                continue
            if isinstance(v, types.ModuleType):
                continue
            if isinstance(v, type):
                if getattr(v, "__module__", "").startswith("cvss"):
                    for ck, cv in sorted(vars(v).items()):
                        if ck.startswith("__") and ck not in ("__init__", "__eq__", "__hash__"):
                            continue
                        if isinstance(cv, (classmethod, staticmethod)):
                            cv = cv.__func__
                        if callable(cv):
                            snap["%s.%s.%s" % (name, k, ck)] = func_state(cv)
                        elif not isinstance(cv, property):
                            snap["%s.%s.%s" % (name, k, ck)] = deep(cv)
                    snap["%s.%s.<attrs>" % (name, k)] = tuple(sorted(x for x in vars(v) if not x.startswith("_") or x.startswith("__")))
                continue
            if callable(v):
                snap["%s.%s" % (name, k)] = ("callable", getattr(v, "__module__", None), getattr(v, "__name__", None)) + func_state(v)
                continue
            snap["%s.%s" % (name, k)] = deep(v)
        snap["%s.<names>" % name] = tuple(sorted(k for k in vars(mod) if not k.startswith("_")))
    c = decimal.getcontext()
    snap["decimal.context"] = (c.prec, c.rounding, c.Emin, c.Emax, c.capitals, c.clamp,
                               tuple(sorted(str(k) for k, v in c.traps.items() if v)))
    snap["sys.path"] = tuple(sys.path)
    snap["warnings.filters"] = tuple(repr(f) for f in warnings.filters)
    snap["cvss modules"] = tuple(sorted(n for n in sys.modules if n == "cvss" or n.startswith("cvss.")))
    # other process-wide settings a library has no business changing (the fresh-process probe, vf/probe27.py, has a longer list:
    # the recursion limit, the random state and the collector are touched by Hypothesis itself in this process)
    import locale
    import logging
    import signal
    for name in ("SIGINT", "SIGPIPE", "SIGTERM", "SIGHUP", "SIGALRM", "SIGCHLD", "SIGUSR1", "SIGUSR2", "SIGQUIT", "SIGTSTP", "SIGWINCH"):
        try:
            h = signal.getsignal(getattr(signal, name))
        except (AttributeError, ValueError, OSError):
            continue
        snap["signal." + name] = getattr(h, "__name__", None) or repr(h)
    snap["locale"] = locale.setlocale(locale.LC_ALL)
    snap["os.environ"] = tuple(sorted(os.environ.items()))
    snap["cwd"] = os.getcwd()
    snap["hooks"] = (sys.excepthook is sys.__excepthook__, sys.displayhook is sys.__displayhook__)
    snap["logging root"] = (logging.root.level, len(logging.root.handlers), logging.root.manager.disable)
    snap["warnings.showwarning"] = (getattr(warnings.showwarning, "__module__", None), getattr(warnings.showwarning, "__name__", None))
    return snap


def is_private(key):
    """cvss.mod._name / cvss.mod.Class._name: implementation detail (e.g. a memo), not one of the library's constant tables"""
    parts = key.split(".")
    return any(p.startswith("_") and not p.startswith("__") for p in parts[1:]) and not key.endswith("<names>") and not key.endswith("<attrs>")


def snap_diff(a, b, private=False):
    """
    keys whose value changed.  Changes of PRIVATE module-level names (leading underscore) are not reported here: a
    memo that does not change any result is not a violation of the statement (its effects, if any, are what the probe,
    batch and schedule comparisons look for); everything public - the constant tables - and the ambient state is.
    """
    d = sorted(k for k in set(a) | set(b) if a.get(k) != b.get(k))
    if private:
        return [k for k in d if is_private(k)]
    return [k for k in d if not is_private(k)]


def warm_up():
    """import everything and exercise every entry point once, so that lazy imports of the standard library
    are not mistaken for modifications by the library"""
    import cvss  # noqa
    import cvss.parser  # noqa
    import cvss.cvss_calculator  # noqa
    import cvss.interactive  # noqa
    for it in FIXED_PROBE:
        local_eval(it)
    local_eval(["interactive", 3.1, False, ["n"] * 8])
    local_eval(["cli", ["-j", "--vector=CVSS:3.1/AV:N/AC:L/PR:N/UI:R/S:C/C:H/I:H/A:N"], None])
    local_eval(["cli", ["-2"], ["n", "l", "n", "c", "c", "c"]])


def quiet_eval(item):
    """evaluate an API item with stdout/stderr captured; -> (result, text written)"""
    old = (sys.stdout, sys.stderr)
    cap = io.StringIO()
    sys.stdout = sys.stderr = cap
    try:
        r = local_eval(item)
    finally:
        sys.stdout, sys.stderr = old
    return r, cap.getvalue()


# ---- replayable checks -------------------------------------------------------------------------------

def check_history(inp):
    """execute ops (a history) in this process, then the probe items; compare with a fresh process"""
    ops, items = inp["ops"], inp["probe"]
    want = [fresh_one(it) for it in items]
    if any(isinstance(w, dict) and "probe_error" in w for w in want):
        raise runner.HarnessError("fresh probe process failed: %r" % (want,))
    warm_up()
    before = snapshot()
    fails = []
    for op in ops:
        if op[0] in ("interactive", "cli"):
            local_eval(op)
        else:
            r, written = quiet_eval(op)
            if written:
                fails.append(failure("nothing written to stdout/stderr by an API call", written[:200], note=json.dumps(op)[:200]))
    after = snapshot()
    d = snap_diff(before, after)
    if d:
        fails.append(failure("process-global state unchanged", d[:8], note="after the history"))
    for it, w in zip(items, want):
        g, _ = quiet_eval(it)
        if g != w:
            fails.append(failure(w, g, note="probe %s after the history differs from a fresh process" % json.dumps(it)[:160]))
    return fails


def job_fn(item):
    return lambda: local_eval(item)


def check_schedule(inp):
    """jobs (probe items) on threads under a fixed schedule; every thread must see the sequential result"""
    from .. import sched
    import cvss
    import os
    items, schedule = inp["jobs"], inp["schedule"]
    warm_up()
    # threads FIRST (first use of whatever the jobs touch happens under the schedule), sequential reference afterwards
    S = sched.Sched([job_fn(it) for it in items], schedule, os.path.dirname(os.path.abspath(cvss.__file__)), inp.get("tail_quantum"))
    res = S.run()
    seq = [local_eval(it) for it in items]
    fails = []
    for it, a, b in zip(items, seq, res):
        if _norm(b) != a:
            fails.append(failure(a, _norm(b), note="thread running %s under the schedule" % json.dumps(it)[:160]))
    inp["_stats"] = (S.switches, S.events)
    return fails


def pressure_items(n, seed):
    """n different vectors, each met through the constructor and, v2/v3, inside a text: whatever the library memoises with a bound
    (128, 256, 1024 entries ...) is full afterwards and starts to evict"""
    rng = random.Random(runner.mix(seed, 2024))
    out = []
    for i in range(n):
        ver = spec.VKEYS[i % 3]
        v = gen.rng_vector(rng, ver)
        out.append(["ctor", ver, v])
        if ver != "4":
            out.append(["text", "note %d - %s - end" % (i, v)])
    return out


_PRESSED = {}


def check_pressure(inp):
    """
    as 'schedule', but the process has seen many different vectors before the threads start (bounded caches are full, every
    miss evicts), and the jobs are new to it.  Every case of a process uses the same pressure, so the state is a function of the case.
    """
    key = (inp["pressure"]["n"], inp["pressure"]["seed"])
    if key not in _PRESSED:
        for it in pressure_items(*key):
            local_eval(it)
        _PRESSED[key] = True
    return check_schedule(inp)


def check_pct(inp):
    """
    2-3 threads, each working through a LIST of items, under the priority scheduler (sched.Sched pct mode: the thread of highest
    priority runs, at d-1 change points - counted in lines that touch module-level mutable state - the running thread is parked
    behind all others).  Optionally after cache pressure.  Every item must answer what it answers sequentially afterwards.
    """
    from .. import sched
    import cvss
    if inp.get("pressure"):
        key = (inp["pressure"]["n"], inp["pressure"]["seed"])
        if key not in _PRESSED:
            for it in pressure_items(*key):
                local_eval(it)
            _PRESSED[key] = True
    else:
        warm_up()
    lists = inp["jobs"]
    S = sched.Sched([(lambda items=items: [local_eval(it) for it in items]) for items in lists], [], os.path.dirname(os.path.abspath(cvss.__file__)), None, pct=inp["pct"])
    res = S.run(timeout=300)
    fails = []
    for items, got in zip(lists, res):
        if isinstance(got, dict) and "thread_exc" in got:
            fails.append(failure("no exception", got["thread_exc"], note="thread working through %d items under the priority schedule" % len(items)))
            continue
        for it, b in zip(items, got):
            a = local_eval(it)
            if _norm(b) != a:
                fails.append(failure(a, _norm(b), note="thread evaluating %s under the priority schedule" % json.dumps(it)[:160]))
                break
    inp["_stats"] = (S.switches, S.events, S.hot_events)
    return fails


def check_hashseed(inp):
    items, seeds = inp["items"], inp["seeds"]
    base = None
    fails = []
    for hs in seeds:
        r = probe.run_probe(items, hashseed=hs, order_seed=hs)
        if "error" in r or not r.get("import_ok"):
            raise runner.HarnessError("probe under PYTHONHASHSEED=%s failed: %r" % (hs, r))
        got = [_norm(x) for x in r["results"]]
        if base is None:
            base = got
            continue
        for it, a, b in zip(items, base, got):
            if a != b:
                fails.append(failure(a, b, note="PYTHONHASHSEED=%s vs %s on %s" % (hs, seeds[0], json.dumps(it)[:160])))
                break
    return fails


def many_items(n, seed, distinct):
    rng = random.Random(runner.mix(seed, 1919))
    pool = None if distinct else [gen.rng_vector(rng, spec.VKEYS[i % 3]) for i in range(7)]
    out = []
    for i in range(n):
        ver = spec.VKEYS[rng.randrange(3)]
        v = gen.rng_vector(rng, ver) if distinct else pool[rng.randrange(len(pool))]
        if not distinct:
            ver = "2" if not v.startswith("CVSS") else ("3" if v.startswith("CVSS:3") else "4")
        if i % 17 == 0:
            v = v[:-1]                      # now and then a rejected string
        if not distinct and i % 23 == 0:
            v = ("", "/", "CVSS:3.1/", "AV:N/", "CVSS:4.0/AV:N", "x")[(i // 23) % 6]      # ... and the simplest rejected strings, again and again
        if distinct and i % 5 == 3 and ver != "4" and i % 17:
            out.append(["text", "%d: %s, and then some" % (i, v)])       # the extractor sees thousands of different vectors too
        else:
            out.append(["ctor", ver, v])
    return out


def check_many(inp):
    """
    LONG histories: the fixed probe set, then n constructions (all different, or seven vectors over and over), then the probe
    set again, in one fresh process.  Both probe passes must equal what a short fresh process answers, and the scores of the
    bulk (every 40th and the last 100) must equal the exact oracles: the thousandth object is an object like the first.
    """
    n, seed, distinct = inp["n"], inp["seed"], inp["distinct"]
    bulk = many_items(n, seed, distinct)
    r = probe.run_probe(FIXED_PROBE + bulk + FIXED_PROBE, timeout=1800)
    short = probe.run_probe(FIXED_PROBE)
    for x in (r, short):
        if "error" in x or not x.get("import_ok"):
            raise runner.HarnessError("probe failed: %r" % (x.get("error") or x.get("import_error")))
    res = [_norm(x) for x in r["results"]]
    want = [_norm(x) for x in short["results"]]
    k = len(FIXED_PROBE)
    fails = []
    for label, got in (("before", res[:k]), ("after", res[-k:])):
        for it, a, b in zip(FIXED_PROBE, want, got):
            if a != b:
                fails.append(failure(a, b, note="probe item %s evaluated %s %d constructions vs alone in a fresh process" % (json.dumps(it)[:120], label, n)))
                break
    if not distinct:
        # the same call made again must answer the same (for a rejection: its own, new exception)
        first = {}
        for i, it in enumerate(bulk):
            key = json.dumps(it)
            if key not in first:
                first[key] = res[k + i]
            elif res[k + i] != first[key]:
                a, b = first[key], res[k + i]
                diff = sorted(x for x in set(a) | set(b) if a.get(x) != b.get(x))
                fails.append(failure(dict((x, a.get(x)) for x in diff[:3]), dict((x, b.get(x)) for x in diff[:3]),
                                     note="%s: call number %d of the history answers differently from the first call with these arguments" % (key[:120], i + 1)))
                break
    idx = sorted(set(list(range(0, n, 40)) + list(range(max(0, n - 100), n))))
    for i in idx:
        if bulk[i][0] != "ctor":
            continue
        kind, ver, v = bulk[i]
        got = res[k + i]
        ok = ref.classify(ver, v)[0] == ref.OK
        if ok != ("exc" not in got):
            fails.append(failure("accepted" if ok else "rejected", got.get("exc") or "accepted", note="construction number %d of the history: %s" % (i + 1, v)))
        elif ok:
            exp = list(scorecheck.as_floats(scorecheck.expected_scores(ver, v)))
            if ver == "4":
                exp = exp[:1]
            if list(got.get("scores", []))[:len(exp)] != exp:
                fails.append(failure(exp, got.get("scores"), note="construction number %d of the history: %s" % (i + 1, v)))
        if len(fails) >= 3:
            break
    return fails


ROUNDINGS = (decimal.ROUND_CEILING, decimal.ROUND_DOWN, decimal.ROUND_FLOOR, decimal.ROUND_HALF_DOWN,
             decimal.ROUND_HALF_EVEN, decimal.ROUND_HALF_UP, decimal.ROUND_UP, decimal.ROUND_05UP)
PRECS = (28, 29, 34, 50, 200)


def check_decimal(inp):
    """vectors scored under an ambient decimal context must equal the exact oracles; context untouched"""
    prec, rounding, vectors = inp["prec"], inp["rounding"], inp["vectors"]
    C = scorecheck.lib_class
    saved = decimal.getcontext()
    ctx = decimal.Context(prec=prec, rounding=rounding)
    if inp.get("flags"):
        # sticky signal flags left over from the application's own arithmetic (a caught InvalidOperation, an inexact division ...)
        for sig in list(ctx.flags):
            ctx.flags[sig] = True
    fails = []
    try:
        decimal.setcontext(ctx)
        for ver, v in vectors:
            exp = scorecheck.as_floats(scorecheck.expected_scores(ver, v))
            try:
                got = C(ver)(v).scores()
            except BaseException as e:  # noqa
                got = "%s: %s" % (type(e).__name__, e)
            if got != exp:
                fails.append(failure(list(exp), got if isinstance(got, type("")) else list(got), note="%s under Context(prec=%d, rounding=%s)" % (v, prec, rounding)))
                if len(fails) > 3:
                    break
        now = decimal.getcontext()
        if (now.prec, now.rounding, now.Emin, now.Emax, now.capitals, now.clamp) != (prec, rounding, ctx.Emin, ctx.Emax, ctx.capitals, ctx.clamp) \
                or dict(now.traps) != dict(ctx.traps):
            fails.append(failure("context as installed by the caller", repr(now)))
    finally:
        decimal.setcontext(saved)
    return fails




# ---- generators -------------------------------------------------------------------------------------

def op_strategy():
    from hypothesis import strategies as st

    @st.composite
    def s(draw):
        kind = draw(st.sampled_from(("ctor-valid", "ctor-valid", "ctor-invalid", "ctor-invalid", "rh-ok", "rh-mismatch", "rh-malformed",
                                     "text", "interactive", "cli")))
        ver = draw(gen.version_key())
        if kind == "ctor-valid":
            return kind, ["ctor", ver, draw(gen.valid(ver))]
        if kind == "ctor-invalid":
            return kind, ["ctor", ver, draw(gen.mutated(ver))[0]]
        if kind.startswith("rh"):
            v = draw(gen.valid(ver))
            if kind == "rh-ok":
                base = scorecheck.as_floats(scorecheck.expected_scores(ver, v))[0]
                # the matching score in the canonical and in other accepted spellings
                fmt = draw(st.sampled_from(("%.1f", "%.1f", "%.2f", "+%.1f", " %.1f", "%.1f ", "0%.1f", "%.1fe0", "%.3f")))
                return kind, ["rh", ver, (fmt % base) + "/" + v]
            if kind == "rh-mismatch":
                return kind, ["rh", ver, "%.1f/%s" % (draw(st.integers(0, 100)) / 10.0, v)]
            return kind, ["rh", ver, draw(st.sampled_from(("x/", "", "/", "7;5/"))) + v]
        if kind == "text":
            from . import c13
            return kind, ["text", draw(c13.text_strategy())[0]]
        if kind == "interactive":
            version = draw(st.sampled_from(interact.VERSIONS))
            allm = draw(st.booleans())
            V = spec.VERS[interact.verkey(version)]
            order = interact.probe_order(version, allm) or list(V.order if allm else V.mandatory)
            answers, meta = draw(interact.script_strategy(version, allm, order))
            return kind, ["interactive", version, allm, answers]
        from . import c17
        inp, mode, nflags = draw(c17.case_strategy())
        return kind, ["cli", inp["argv"], inp["stdin"]]
    return s()


def history_part(n_examples, shard, steps, baseline):
    from hypothesis import seed, strategies as st
    from hypothesis.stateful import RuleBasedStateMachine, invariant, rule, run_state_machine_as_test
    import hypothesis.errors as he
    part = runner.Part(PID)
    warm_up()
    snap = [snapshot()]
    recorded = []       # (history so far, item, local result) for the batch comparison

    class Machine(RuleBasedStateMachine):
        def __init__(self):
            RuleBasedStateMachine.__init__(self)
            self.ops = []
            self.kinds = set()

        def _fail(self, exp, got, note, probe_items=None):
            raise runner.Falsified("history", {"ops": list(self.ops), "probe": probe_items or FIXED_PROBE}, [failure(exp, got, note=note)])

        @rule(op=op_strategy())
        def step(self, op):
            kind, item = op
            self.kinds.add(kind)
            if item[0] in ("interactive", "cli"):
                r = local_eval(item)
            else:
                r, written = quiet_eval(item)
                if written:
                    self.ops.append(item)
                    self._fail("nothing written to stdout/stderr by an API call", written[:200], json.dumps(item)[:200])
            recorded.append((len(self.ops), item, r, self))
            self.ops.append(item)

        @invariant()
        def probes_and_globals(self):
            if not self.ops:
                return
            for it, w in zip(FIXED_PROBE, baseline):
                g, _ = quiet_eval(it)
                if g != w:
                    self._fail(w, g, "fixed probe %s differs from the fresh process after the history" % json.dumps(it)[:120])
            now = snapshot()
            dp = snap_diff(snap[0], now, private=True)
            if dp:
                part.classes["private-module-state-changed (not a violation by itself)"] += 1
                if len(part.notes) < 5:
                    part.notes.append("private module-level state changed: %s" % dp[:4])
            d = snap_diff(snap[0], now)
            if d or dp:
                snap[0] = now
            if d:
                # a change of global state is sticky: record it directly (outside Hypothesis' replay/shrink cycle, which
                # could never reproduce it inside this process) and continue from the new state
                if len(part.violations) < 5:
                    part.add_failures("history", {"ops": list(self.ops), "probe": []},
                                      [failure("process-global state unchanged", d[:8], note="after %s" % json.dumps(self.ops[-1])[:160])])
                snap[0] = now

        def teardown(self):
            if not self.ops:
                return
            rejected = any(k in self.kinds for k in ("ctor-invalid", "rh-mismatch", "rh-malformed"))
            serial = any(k in self.kinds for k in ("ctor-valid", "rh-ok", "cli"))
            part.count({"ops": self.ops}, nontrivial=rejected and serial and len(self.ops) >= 3,
                       classes=["history"] + ["op:" + k for k in sorted(self.kinds)])

    try:
        run_state_machine_as_test(seed(runner.mix(runner.SEED, 19, shard))(Machine),
                                  settings=runner.hyp_settings(n_examples, stateful_step_count=steps))
    except runner.Falsified as f:
        for x in f.failures:
            v = {"check": f.check, "input": f.inp}
            v.update(x)
            part.violations.append(v)
        return part
    except (he.Unsatisfiable, he.FailedHealthCheck, he.InvalidArgument, he.Flaky) as e:
        part.harness_errors.append("C19 machine: %s: %s" % (type(e).__name__, str(e)[:400]))
        return part
    # batch: everything computed inside histories vs a fresh process that evaluates it in another order
    uniq, seen = [], set()
    for pos, item, r, m in recorded:
        k = json.dumps(item, sort_keys=True)
        if k not in seen and len(uniq) < 4000:
            seen.add(k)
            uniq.append((pos, item, r, m))
    if uniq:
        fr = probe.run_probe([u[1] for u in uniq], order_seed=runner.mix(runner.SEED, shard) % (2 ** 31))
        if "error" in fr or not fr.get("import_ok"):
            part.harness_errors.append("batch probe failed: %r" % (fr.get("error") or fr.get("import_error")))
        else:
            for (pos, item, r, m), w in zip(uniq, fr["results"]):
                part.classes["batch-compared"] += 1
                if _norm(w) != r:
                    part.add_failures("history", {"ops": m.ops[:pos], "probe": [item]},
                                      [failure(_norm(w), r, note="result inside a history differs from a fresh process")])
    return part


def schedule_part(n_examples, shard):
    from hypothesis import given, strategies as st
    import cvss
    import os
    from .. import sched
    part = runner.Part(PID)
    warm_up()
    target = os.path.dirname(os.path.abspath(cvss.__file__))

    @st.composite
    def case(draw):
        n = draw(st.integers(2, 4))
        jobs = []
        api = op_strategy().filter(lambda o: o[1][0] in ("ctor", "rh", "text"))
        mode = draw(st.sampled_from(("independent", "same-item", "same-item", "mixed")))
        first = draw(api)[1]
        for i in range(n):
            if mode == "same-item" or (mode == "mixed" and i < 2):
                jobs.append(first)       # several threads build the very same thing: check-then-act races on first use
            else:
                jobs.append(draw(api)[1])
        schedule = draw(st.lists(st.tuples(st.integers(0, n - 1), st.integers(1, 60)), min_size=0, max_size=60))
        tail = draw(st.sampled_from((None, 1, 2, 3, 5, 7, 19, 53, 211, "lcg3", "lcg8", "lcg30")))
        if isinstance(tail, str):
            tail = [draw(st.integers(0, 1 << 20)), int(tail[3:])]        # aperiodic tail
        return jobs, [list(x) for x in schedule], tail

    @runner.seeded(19, 1000 + shard)
    @runner.hyp_settings(n_examples)
    @given(case())
    def t(c):
        jobs, schedule, tail = c
        inp = {"jobs": jobs, "schedule": schedule, "tail_quantum": tail}
        S = sched.Sched([job_fn(it) for it in jobs], schedule, target, tail)
        res = S.run()                              # threads first: first-use effects happen under the schedule
        seq = [local_eval(it) for it in jobs]      # sequential reference afterwards
        part.count(inp, nontrivial=S.switches >= 3,
                   classes=("schedule", "threads=%d" % len(jobs), "switches>=10" if S.switches >= 10 else "switches<10",
                            "same-job-in-several-threads" if len(set(json.dumps(j) for j in jobs)) < len(jobs) else "distinct-jobs"))
        part.extra["switches"] = part.extra.get("switches", 0) + S.switches
        part.extra["line_events"] = part.extra.get("line_events", 0) + S.events
        fails = [failure(a, _norm(b), note="thread running %s" % json.dumps(it)[:160]) for it, a, b in zip(jobs, seq, res) if _norm(b) != a]
        if fails:
            if check_schedule(dict(inp)):
                raise runner.Falsified("schedule", inp, fails)        # reproducible inside this process: let Hypothesis shrink it
            # happens only on FIRST use inside a process (the replay command runs in a fresh process): record it as it is
            if len(part.violations) < 5:
                for f in fails:
                    f["note"] += " (only on first use in a process: not shrunk)"
                part.add_failures("schedule", inp, fails)
    runner.run_hyp(part, t, "C19.schedule")
    return part


def pressure_part(shard, n_cases, seed):
    part = runner.Part(PID)
    rng = random.Random(runner.mix(seed, 191, shard))
    pressure = {"n": (140, 300, 600, 1200)[shard % 4], "seed": runner.mix(seed, shard) % 1000}
    for i in range(n_cases):
        n = rng.choice((2, 2, 3, 4))
        kind = rng.choice(("text", "text", "ctor", "mixed"))
        jobs = []
        for j in range(n):
            ver = spec.VKEYS[rng.randrange(3)] if kind != "text" else spec.VKEYS[rng.randrange(2)]
            v = gen.rng_vector(rng, ver)
            if kind == "text" or (kind == "mixed" and j % 2 and ver != "4"):
                more = [gen.rng_vector(rng, spec.VKEYS[rng.randrange(2)]) for _ in range(rng.choice((1, 3, 6, 10)))]
                jobs.append(["text", "a %s b %s c" % (v, " , ".join(more))])        # many new keys per call: a bound is crossed every few cases
            else:
                jobs.append(["ctor", ver, v])
        if rng.random() < 0.3:
            jobs[1] = jobs[0]
        schedule = [[rng.randrange(n), rng.choice((1, 1, 2, 3, 5, 8, 13, 30))] for _ in range(rng.randrange(0, 50))]
        inp = {"jobs": jobs, "schedule": schedule, "tail_quantum": rng.choice((1, 2, 3, [rng.randrange(1 << 20), 3], [rng.randrange(1 << 20), 6], [rng.randrange(1 << 20), 12], [rng.randrange(1 << 20), 40])),
               "pressure": pressure}
        part.check("pressure", check_pressure, inp)
        st_ = inp.pop("_stats", (0, 0))
        part.count(inp, nontrivial=st_[0] >= 3, classes=("under-cache-pressure", "pressure=%d" % pressure["n"]))
        part.extra["switches"] = part.extra.get("switches", 0) + st_[0]
        part.extra["line_events"] = part.extra.get("line_events", 0) + st_[1]
    return part


def pct_part(shard, n_cases, seed):
    part = runner.Part(PID)
    rng = random.Random(runner.mix(seed, 192, shard))
    pressure = {"n": (140, 300, 600)[shard % 3], "seed": runner.mix(seed, shard) % 1000} if shard % 2 else None
    k = 3000
    for i in range(n_cases):
        n = rng.choice((2, 2, 3))
        kind = rng.choice(("texts", "texts", "ctors", "same-text", "mixed"))
        m = rng.choice((40, 120, 300, 420))
        lists = []
        for j in range(n):
            vs = [(spec.VKEYS[rng.randrange(3 if kind in ("ctors", "mixed") else 2)]) for _ in range(m)]
            vs = [(ver, gen.rng_vector(rng, ver)) for ver in vs]
            if kind == "ctors" or (kind == "mixed" and j == 0):
                lists.append([["ctor", ver, v] for ver, v in vs])
            else:
                step = rng.choice((1, 7, 50))
                lists.append([["text", " ; ".join(v for ver, v in vs[a:a + step] if ver != "4") or "nothing"] for a in range(0, m, step)])
        if kind == "same-text":
            lists = [lists[0]] * n
        inp = {"jobs": lists, "pct": {"seed": rng.randrange(1 << 30), "d": rng.choice((2, 2, 3, 4)), "k": k}, "pressure": pressure}
        part.check("pct", check_pct, inp)
        st_ = inp.pop("_stats", (0, 0, 0))
        if st_[2]:
            k = st_[2]                    # number of hot line events of the previous case: where the next case places its change points
        small = dict(inp, jobs=[l[:2] + ["... %d items" % len(l)] for l in lists])
        part.count(small, nontrivial=st_[0] >= 1, classes=("priority-schedule", "priority-schedule:" + kind, "priority-schedule after pressure" if pressure else "priority-schedule cold"))
        part.extra["switches"] = part.extra.get("switches", 0) + st_[0]
        part.extra["line_events"] = part.extra.get("line_events", 0) + st_[1]
    part.reservoir.pop("pct", None)      # hundreds of constructions per case under a line tracer: not re-run in the other interpreter modes
    return part                          # (under the pure-Python decimal module one case takes minutes); 'pressure' and 'schedule' cases are


def stress_part(shard, n, seed):
    """free-running threads with a tiny switch interval; verdict: equal to sequential or a concrete mismatch"""
    part = runner.Part(PID)
    warm_up()
    rng = random.Random(runner.mix(seed, 190, shard))
    items = []
    for i in range(n):
        ver = spec.VKEYS[i % 3]
        items.append(["ctor", ver, gen.rng_vector(rng, ver)])
    # threads FIRST (whatever is filled lazily is still cold), the sequential reference afterwards; two threads walk each
    # slice of the list at the same time, so the same new key is looked up by two threads at once
    res = [[None] * len(items), [None] * len(items)]
    old = sys.getswitchinterval()
    sys.setswitchinterval(1e-6)
    try:
        def worker(k):
            for i in range(k % 4, len(items), 4):
                try:
                    res[k // 4][i] = local_eval(items[i])
                except BaseException as e:  # noqa
                    res[k // 4][i] = {"escaped": "%s: %s" % (type(e).__name__, e)}
        ths = [threading.Thread(target=worker, args=(k,)) for k in range(8)]
        for t in ths:
            t.start()
        for t in ths:
            t.join(120)
    finally:
        sys.setswitchinterval(old)
    seq = [local_eval(it) for it in items]
    bad = [(it, a, b) for r in res for it, a, b in zip(items, seq, r) if a != b]
    part.count(None, classes=("free-running-stress",), n=len(items))
    for it, a, b in bad[:3]:
        part.add_failures("schedule", {"jobs": [it], "schedule": [], "note": "free-running stress: not replayable deterministically"},
                          [failure(a, b, note="concurrent construction differs from sequential")])
    return part


def hashseed_part(shard, n_items, seed):
    part = runner.Part(PID)
    rng = random.Random(runner.mix(seed, 191, shard))
    items = []
    for i in range(n_items):
        ver = spec.VKEYS[i % 3]
        k = i % 5
        if k in (0, 1):
            items.append(["ctor", ver, gen.rng_vector(rng, ver)])
        elif k == 2:
            v = gen.rng_vector(rng, ver)
            items.append(["ctor", ver, v[:rng.randrange(len(v))] + rng.choice("/:XZ ") + v[rng.randrange(len(v)):]])
        elif k == 3:
            vs = [gen.rng_vector(rng, rng.choice("23")) for _ in range(rng.randrange(2, 7))]
            items.append(["text", " and ".join(vs + vs[:2])])
        else:
            items.append(["rh", ver, "%.1f/%s" % (rng.randrange(101) / 10.0, gen.rng_vector(rng, ver))])
    seeds = [0, 1, 2] + [runner.mix(seed, shard, j) % 4294967295 for j in range(2)]
    inp = {"items": items, "seeds": seeds}
    part.count(None, classes=("hashseed",), n=len(items) * len(seeds))
    part.nontrivial_count += len(items)
    part.check("hashseed", check_hashseed, inp)
    return part


def decimal_part(idx, n_env, seed):
    prec = PRECS[idx // len(ROUNDINGS)]
    rounding = ROUNDINGS[idx % len(ROUNDINGS)]
    part = runner.Part(PID)
    rng = random.Random(runner.mix(seed, 192, idx))
    vectors = []
    import itertools
    for minor in (0, 1):
        for b in itertools.product("NALP", "LH", "NLH", "NR", "UC", "HLN", "HLN", "HLN"):
            if rng.random() < 0.5:
                vectors.append(("3", "CVSS:3.%d/AV:%s/AC:%s/PR:%s/UI:%s/S:%s/C:%s/I:%s/A:%s" % ((minor,) + b)))
    for b in itertools.product("LAN", "HML", "MSN", "NPC", "NPC", "NPC"):
        vectors.append(("2", "AV:%s/AC:%s/Au:%s/C:%s/I:%s/A:%s" % b))
    for i in range(n_env):
        ver = spec.VKEYS[i % 3]
        vectors.append((ver, gen.rng_vector(rng, ver, p_opt=0.7)))
    flags = idx % 2 == 1          # every second context carries set signal flags
    inp = {"prec": prec, "rounding": rounding, "vectors": vectors, "flags": flags}
    part.count(None, classes=("decimal", "prec=%d" % prec, "decimal:signal-flags-set" if flags else "decimal:signal-flags-clear"), n=len(vectors))
    part.nontrivial_count += len(vectors)
    part.check("decimal", check_decimal, inp)
    if part.violations:
        # shrink the replay.  This worker process may carry state from earlier cases, so every candidate is judged in a
        # FRESH process: first a vector that fails on its own, else a minimal failing sub-sequence (history dependent)
        mk = lambda sub: {"prec": prec, "rounding": rounding, "vectors": sub, "flags": flags}
        bad_here = [x for x in vectors if check_decimal(mk([x]))][:3]
        small = None
        for x in bad_here:
            if runner.fresh_fails(PID, "decimal", mk([x])):
                small = [x]
                break
        note = None
        if small is None:
            if runner.fresh_fails(PID, "decimal", mk(vectors)):
                small = runner.ddmin(vectors, lambda sub: runner.fresh_fails(PID, "decimal", mk(sub)), budget=40)
                note = "history dependent: fails only after the earlier vectors of the list"
            else:
                small = vectors
                note = "seen only inside a long-lived worker process; the full list does not reproduce it in a fresh process"
        fails = check_decimal(mk(small)) or [failure("scores equal to the oracle", "mismatch (see note)")]
        for f in fails:
            if note:
                f["note"] = (f.get("note") or "") + " [" + note + "]"
        part.violations = []
        part.add_failures("decimal", mk(small), fails[:2])
    return part


def many_part(j, n, seed):
    part = runner.Part(PID)
    inp = {"n": n, "seed": runner.mix(seed, j), "distinct": j % 2 == 0}
    part.count(None, classes=("long-history", "long-history:" + ("distinct" if inp["distinct"] else "repeated")), n=n)
    part.nontrivial_count += 1
    part.check("many", check_many, inp)
    return part


def fresh_one(item):
    """one probe item in its own fresh interpreter process: a result with no history at all"""
    r = probe.run_probe([item])
    if "error" in r or not r.get("import_ok"):
        return {"probe_error": r.get("error") or r.get("import_error")}
    return _norm(r["results"][0])


def ambient_diff(r):
    a, b = r.get("ambient_before") or {}, r.get("ambient_after") or {}
    return dict((k, [a.get(k), b.get(k)]) for k in sorted(set(a) | set(b)) if a.get(k) != b.get(k))


def check_ambient(inp):
    """
    fresh process: decimal context, sys.path, warnings.filters and cwd are recorded BEFORE the package is
    imported and after the items were evaluated; importing and using the library must not change them
    """
    r = probe.run_probe(inp["items"])
    if "error" in r or not r.get("import_ok"):
        raise runner.HarnessError("probe failed: %r" % (r.get("error") or r.get("import_error")))
    fails = []
    d = ambient_diff(r)
    if d:
        fails.append(failure("process-global state as before the import", d, note="after importing cvss and evaluating %d item(s) in a fresh process" % len(inp["items"])))
    tb, ta = r.get("tables_before") or {}, r.get("tables_after") or {}
    changed = sorted(k for k in set(tb) | set(ta) if tb.get(k) != ta.get(k))
    if changed:
        k = changed[0]
        fails.append(failure("the package's module-level tables as they were right after the import", changed[:6],
                             note="%s: %s -> %s" % (k, json.dumps(tb.get(k), default=repr)[:150], json.dumps(ta.get(k), default=repr)[:150])))
    if all(it[0] in ("ctor", "rh", "text") for it in inp["items"]) and (r.get("stderr") or "").strip():
        # importing the package (no cached bytecode) and calling the API wrote to the real stderr of a fresh process
        fails.append(failure("nothing written to stderr outside the CLI and interactive entry points", r["stderr"][-300:],
                             note="fresh process (PYTHONDONTWRITEBYTECODE=1) importing cvss, cvss.parser, ... and evaluating API items"))
    return fails


def run(tier, t0):
    n, problems = oracles.selftest()
    if problems:
        raise runner.HarnessError("oracle self-test failed: %r" % problems[:3])
    part = runner.Part(PID)
    q = tier == "quick"
    baseline = runner.parallel("vf.props.c19", "fresh_one", [(it,) for it in FIXED_PROBE])
    if any(isinstance(b, runner.Part) or (isinstance(b, dict) and "probe_error" in b) for b in baseline):
        raise runner.HarnessError("fresh probe processes failed: %r" % (baseline,))
    # import-time and first-use effects on process-global state, seen from outside: one item per process and all at once
    for items in [[it] for it in FIXED_PROBE] + [FIXED_PROBE, [["interactive", 4.0, True, ["n"] * 11 + [""] * 21]],
                                                 [["cli", ["-j", "-2", "--vector=AV:L/AC:L/Au:M/C:N/I:P/A:C"], None]]]:
        part.count(None, classes=("ambient-in-fresh-process",))
        part.nontrivial_count += 1
        part.check("ambient", check_ambient, {"items": items})
    for p in runner.parallel("vf.props.c19", "many_part", [(j, (1500, 3000, 5000, 2500)[j] if q else (20000, 30000, 40000, 25000)[j], runner.SEED) for j in range(4)]):
        part.merge(p)
    part.merge(runner.hyp_shards("vf.props.c19", "history_part", 320 if q else 4000, args=(20 if q else 40, baseline)))
    part.merge(runner.hyp_shards("vf.props.c19", "schedule_part", 800 if q else 16000))
    for p in runner.parallel("vf.props.c19", "pressure_part", [(s, 40 if q else 600, runner.SEED) for s in range(runner.NPROC)]):
        part.merge(p)
    for p in runner.parallel("vf.props.c19", "pct_part", [(s, 5 if q else 60, runner.SEED) for s in range(runner.NPROC)]):
        part.merge(p)
    for p in runner.parallel("vf.props.c19", "stress_part", [(s, 1200 if q else 10000, runner.SEED) for s in range(4)]):
        part.merge(p)
    for p in runner.parallel("vf.props.c19", "hashseed_part", [(s, 150 if q else 800, runner.SEED) for s in range(runner.NPROC if not q else 8)]):
        part.merge(p)
    for p in runner.parallel("vf.props.c19", "decimal_part", [(i, 1500 if q else 15000, runner.SEED) for i in range(len(PRECS) * len(ROUNDINGS))]):
        part.merge(p)
    rule = ("(1) histories: state-machine sequences of API calls (valid/invalid constructions of every version, RH ok/mismatch/"
            "malformed, text extraction, interactive runs, in-process CLI runs), probe + global-state snapshot after every step, "
            "all results re-computed by a fresh process in another order; (2) 2-4 threads under a drawn line-level schedule; "
            "the same after 140-1200 different vectors went through the process (bounded caches full); 2-3 threads working through lists of hundreds of items under a priority schedule with 1-3 change points placed on lines that touch module-level mutable state; free-running 8-thread stress; (3) probe corpus under 5 PYTHONHASHSEED values; (4) all v2 base vectors, half of the "
            "v3 base vectors and seeded vectors of every version under 40 ambient decimal contexts vs the exact oracles. "
            "non-trivial = history with >= 3 steps incl. a rejected and a successful call / schedule with >= 3 forced switches / "
            "every hash-seed and decimal-context case; histories and schedules distinct by hash, the rest counted")
    return runner.finish(part, tier, t0, rule,
                         ["decimal sticky flags are not part of the context the library must preserve; precisions >= 28 only",
                          "schedules are explored at line granularity in frames of cvss/*.py; interleavings inside one line are left to the free-running stress",
                          "lazy imports of the standard library are triggered by a warm-up before the first snapshot"],
                         required=("long-history", "history", "op:ctor-valid", "op:ctor-invalid", "op:rh-mismatch", "op:text", "op:interactive", "op:cli",
                                   "batch-compared", "ambient-in-fresh-process", "schedule", "switches>=10", "same-job-in-several-threads", "distinct-jobs", "under-cache-pressure", "priority-schedule", "free-running-stress", "hashseed", "decimal", "decimal:signal-flags-set", "prec=28", "prec=200"),
                         extra={"forced_thread_switches": part.extra.get("switches", 0), "traced_line_events": part.extra.get("line_events", 0)})


CHECKS = {"history": check_history, "schedule": check_schedule, "hashseed": check_hashseed, "decimal": check_decimal,
          "ambient": check_ambient, "many": check_many, "pressure": check_pressure, "pct": check_pct}
