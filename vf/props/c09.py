# -*- coding: utf-8 -*-
"""
C09 - scores are well-formed floats (or None only for undefined v2 groups) and every severity rating
is the one the official scale assigns; severities(), CVSS4.severity and the JSON output agree.

Generator: seeded classes of the score quotients of C01-C03; an oracle pre-pass picks, for every
(version, slot, score value) triple it meets, the first class as a witness, so that every score value
reachable from real vectors is pushed through the library (the expensive part) at least once, plus
every 8th class.  Oracle: pinned band table applied to the *oracle* score; format predicate.
"""
from __future__ import unicode_literals

import itertools
import random

from .. import gen, obs, oracles, ref, runner, scorecheck, spec
from ..runner import failure

PID = "C09"
SLOTS = ("base", "temporal", "environmental")
JSON_SEV = {"3": ("baseSeverity", "temporalSeverity", "environmentalSeverity"), "4": ("baseSeverity",)}
JSON_SCORE = {"2": ("baseScore", "temporalScore", "environmentalScore"),
              "3": ("baseScore", "temporalScore", "environmentalScore"), "4": ("baseScore",)}


PREDS3 = ("CVSS:3.%d/AV:N/AC:L/PR:N/UI:N/S:C/C:H/I:H/A:H/E:H/RL:U/RC:C/CR:H/IR:H/AR:H/MAV:N",
          "CVSS:3.%d/AV:P/AC:H/PR:H/UI:R/S:U/C:L/I:N/A:N/E:U/RL:O/RC:U/CR:L/IR:L/AR:L/MAV:P")


def check_wellformed(inp):
    ver, v = inp["ver"], inp["vector"]
    exp = scorecheck.as_floats(scorecheck.expected_scores(ver, v))
    if inp.get("pred"):
        # another object of the version, rated and serialised in every form just before: what this object reports is its own
        p = scorecheck.lib_class(ver)(inp["pred"])
        p.severities()
        for sort_ in (False, True):
            for minimal_ in (False, True):
                p.as_json(sort=sort_, minimal=minimal_)
    o = scorecheck.lib_class(ver)(v)
    fails = []
    got = o.scores()
    if type(got) is not tuple or len(got) != len(exp):
        return [failure("tuple of %d scores" % len(exp), repr(got))]
    band = spec.band2 if ver == "2" else spec.band34
    want_sev = tuple(band(e) for e in exp)
    for i, (g, e) in enumerate(zip(got, exp)):
        if e is None:
            if g is not None:
                fails.append(failure(None, repr(g), note="undefined v2 %s score must be None" % SLOTS[i]))
        elif g is None:
            fails.append(failure(e, None, note="None only for undefined v2 temporal/environmental scores"))
        elif not scorecheck.well_formed_float(g) or not (0.0 <= g <= 10.0):
            fails.append(failure("float with one decimal in [0,10]", repr(g), note=SLOTS[i]))
    sev = o.severities()
    try:
        sub = obs.trivial_subclass(type(o))(o.vector)          # an instance of 'class Sub(C): pass' is rated like any object of C
        if (sub.scores(), sub.severities()) != (o.scores(), sev):
            fails.append(failure([list(o.scores()), list(sev)], [list(sub.scores()), list(sub.severities())], note="scores / ratings of an instance of a subclass that adds nothing"))
    except BaseException as e:  # noqa
        fails.append(failure("class Sub(C): pass behaves like C", "%s: %s" % (type(e).__name__, e)))
    if tuple(sev) != want_sev:
        fails.append(failure(list(want_sev), repr(sev), note="severities() vs official scale applied to the oracle scores %r" % (exp,)))
    if ver == "4" and getattr(o, "severity", None) != want_sev[0]:
        fails.append(failure(want_sev[0], repr(getattr(o, "severity", None)), note="CVSS4.severity attribute"))
    for minimal in (True, False, True):          # the minimal form FIRST: its ratings must not lean on an earlier full document
        j = o.as_json(minimal=minimal)
        for i, key in enumerate(JSON_SEV.get(ver, ())):
            if key in j:
                if not isinstance(j[key], type("")) or j[key].upper() != want_sev[i].upper():
                    fails.append(failure(want_sev[i], repr(j[key]), note="as_json(minimal=%s)[%r] disagrees with severities()/scale" % (minimal, key)))
        for i, key in enumerate(JSON_SCORE[ver]):
            if key in j and exp[i] is not None:
                x = j[key]
                if not scorecheck.well_formed_float(x) or not (0.0 <= x <= 10.0):
                    fails.append(failure("well-formed score", repr(x), note="as_json(minimal=%s)[%r]" % (minimal, key)))
    return fails


CHECKS = {"wellformed": check_wellformed}


def _rand_class(rng, ver):
    """-> (vector, oracle scores as floats)"""
    if ver == "2":
        b = tuple(rng.choice(x) for x in ("LAN", "HML", "MSN", "NPC", "NPC", "NPC"))
        t = None if rng.random() < 0.15 else (rng.choice(("U", "POC", "F", "H")), rng.choice(("OF", "TF", "W", "U")), rng.choice(("UC", "UR", "C")))
        e = None if rng.random() < 0.15 else (rng.choice(("N", "L", "LM", "MH", "H")), rng.choice("NLMH"), rng.choice("LMH"), rng.choice("LMH"), rng.choice("LMH"))
        v = gen.realise2(rng, b, t, e)
    elif ver == "3":
        minor = rng.randrange(2)
        base = dict((k, rng.choice(spec.V3[k])) for k in gen.B3)
        ma = dict((k, (base[k] if rng.random() < 0.4 else rng.choice(spec.V3[k]))) for k in gen.B3)
        opt = {"E": rng.choice("HFPU"), "RL": rng.choice("UWTO"), "RC": rng.choice("CRU"),
               "CR": rng.choice("HML"), "IR": rng.choice("HML"), "AR": rng.choice("HML")}
        v = gen.realise3(rng, minor, base, ma, opt)
    else:
        e = dict((k, rng.choice(d)) for k, d in oracles.LV4.items())
        e["E"] = rng.choice("APU")
        if rng.random() < 0.1:          # low-score region is thin under the uniform distribution
            for k in ("VC", "VI", "VA", "SC", "SI", "SA"):
                e[k] = rng.choice("LN")
        v = gen.realise4(rng, e)
    return v


def work(shard, n, seed):
    part = runner.Part(PID)
    rng = random.Random(runner.mix(seed, 9, shard))
    seen = set()
    reached = set()
    k = 0
    for ver in spec.VKEYS:
        for _ in range(n):
            v = _rand_class(rng, ver)
            exp = scorecheck.as_floats(scorecheck.expected_scores(ver, v))
            triples = set((ver, i, x) for i, x in enumerate(exp))
            new = triples - seen
            k += 1
            if new or (k & 7) == 0:
                seen |= triples
                inp = {"ver": ver, "vector": v}
                if k % 3 == 0:
                    inp["pred"] = _rand_class(rng, ver)          # every third case follows another object's ratings and documents
                    part.classes["after-another-object"] += 1
                ok = part.check("wellformed", check_wellformed, inp)
                part.evaluations += 1
                part.classes["v%s" % ver] += 1
                if new:
                    reached |= new
                    if len(part.samples) < 3 and shard == 0 and len(reached) % 40 == 7:
                        part.samples.append({"ver": ver, "vector": v, "scores": list(exp)})
    part.extra["reached"] = set("%s/%d/%s" % (a, b, c) for a, b, c in reached)
    return part


def deterministic(part):
    """every base assignment of v2 and v3 (both minors) and all macrovector extremes' plain spelling"""
    reached = set()
    for b in itertools.product("LAN", "HML", "MSN", "NPC", "NPC", "NPC"):
        v = "AV:%s/AC:%s/Au:%s/C:%s/I:%s/A:%s" % b
        part.check("wellformed", check_wellformed, {"ver": "2", "vector": v})
        part.evaluations += 1
        part.classes["v2 base-only"] += 1
    for minor in (0, 1):
        for b in itertools.product("NALP", "LH", "NLH", "NR", "UC", "HLN", "HLN", "HLN"):
            v = "CVSS:3.%d/AV:%s/AC:%s/PR:%s/UI:%s/S:%s/C:%s/I:%s/A:%s" % ((minor,) + b)
            part.check("wellformed", check_wellformed, {"ver": "3", "vector": v})
            part.evaluations += 1
            part.classes["v3 base-only"] += 1
            # ... and once more right after an object WITH temporal and environmental metrics was rated and serialised (a Critical and
            # a Low one in turn): the ratings in this object's documents are its own
            part.check("wellformed", check_wellformed, {"ver": "3", "vector": v, "pred": PREDS3[part.classes["v3 base-only"] % 2] % minor})
            part.evaluations += 1
            part.classes["v3 base-only after a full object"] += 1
    return reached


def run(tier, t0):
    n, problems = oracles.selftest()
    if problems:
        raise runner.HarnessError("oracle self-test failed: %r" % problems[:3])
    part = runner.Part(PID)
    per = 12000 if tier == "quick" else 150000
    for p in runner.parallel("vf.props.c09", "work", [(s, per, runner.SEED) for s in range(runner.NPROC)]):
        part.merge(p)
    deterministic(part)
    reached = part.extra.get("reached", set())
    part.nontrivial_count = len(reached)
    by = {}
    for r in reached:
        ver, slot, val = r.split("/")
        by.setdefault("v%s.%s" % (ver, SLOTS[int(slot)]), []).append(val)
    edges = ("0.0", "0.1", "3.9", "4.0", "6.9", "7.0", "8.9", "9.0", "10.0")
    edge_report = dict((k, [e for e in edges if e in v]) for k, v in sorted(by.items()))
    counts = dict((k, len(v)) for k, v in sorted(by.items()))
    for k in ("v2.base", "v3.base", "v3.temporal", "v3.environmental", "v4.base", "v2.temporal", "v2.environmental"):
        need = 60 if k.endswith("base") and not k.startswith("v4") else 80
        if counts.get(k, 0) < need:
            part.harness_errors.append("only %d distinct score values reached in slot %s" % (counts.get(k, 0), k))
    for k in ("v3.base", "v3.temporal", "v3.environmental", "v4.base"):
        for lo, hi in (("3.9", "4.0"), ("6.9", "7.0"), ("8.9", "9.0")):
            if lo not in by.get(k, ()) or hi not in by.get(k, ()):
                part.harness_errors.append("band edge %s/%s not reached in slot %s" % (lo, hi, k))
    rule = ("seeded random classes of the v2/v3/v4 score quotients in random spellings; an oracle pre-pass selects the "
            "first class met for every (version, slot, score value) triple as a witness plus every 8th class, and all "
            "base-only v2/v3 vectors; distinct non-trivial = number of distinct (version, slot, score value) triples "
            "(incl. None) pushed through the library")
    return runner.finish(
        part, tier, t0, rule,
        ["score values judged against the exact oracles of C01-C03 (self-tested against %d official vectors)" % n,
         "severity strings compared case-insensitively between severities() and JSON (v3 JSON is upper-case by schema)"],
        required=("v2", "v3", "v4", "v2 base-only", "v3 base-only"),
        extra={"distinct_score_values_per_slot": counts, "band_edges_reached": edge_report})
