# -*- coding: utf-8 -*-
"""
C12 - Red Hat notation round-trips and rejects mismatching scores.
"""
from __future__ import unicode_literals

from .. import gen, obs, ref, runner, scorecheck, spec
from ..runner import failure

PID = "C12"


def _number(text):
    """'parses as a number' is defined as Python float() succeeding"""
    try:
        return float(text)
    except ValueError:
        return None


def _exact(text):
    """the number the score text denotes, exactly (None when it denotes no finite number or decimal cannot read what float() read)"""
    import decimal
    from fractions import Fraction
    try:
        d = decimal.Decimal(text.strip())
    except (decimal.InvalidOperation, ValueError, TypeError):
        return None
    if not d.is_finite():
        return None
    try:
        if d != 0 and not (-400 < d.adjusted() < 400) or len(d.as_tuple().digits) > 30000:
            return "far"                # a huge exponent: certainly not a score, never mind its exact value
        return Fraction(d)
    except (ValueError, OverflowError, decimal.InvalidOperation):
        return None


def check_rh_object(inp):
    """rh_vector() == '%.1f' % base + '/' + clean vector; from_rh_vector(rh_vector()) == x"""
    ver, s = inp["ver"], inp["s"]
    prefix, m = ref.parse(ver, s)
    base = scorecheck.as_floats(scorecheck.expected_scores(ver, s))[0]
    C = obs.classes()[ver]
    o = C(s)
    pre = inp.get("pre") or []
    if pre:
        # "for every object": also one whose other public accessors were called first
        from . import c18
        A = c18.accessors(ver)
        for name in pre:
            A[name](o)
    rh = o.rh_vector()
    fails = []
    want_prefix = "%.1f/" % base
    if not isinstance(rh, type("")) or not rh.startswith(want_prefix):
        fails.append(failure(want_prefix + "<clean vector>", rh, note="rh_vector() must print the base score with one decimal"))
    elif rh[len(want_prefix):] != o.clean_vector():
        fails.append(failure(want_prefix + o.clean_vector(), rh, note="rh_vector() must carry the cleaned vector"))
    else:
        # the cleaned vector must be the model's set of defined metrics (order is C07/C08's business)
        body = rh[len(want_prefix):]
        got = sorted(f for f in body[len(prefix):].split("/") if f)
        want = sorted("%s:%s" % kv for kv in ref.defined(ver, m).items())
        if got != want or not body.startswith(prefix):
            fails.append(failure(want, got, note="vector part of rh_vector()"))
    k, o2 = obs.construct(ver, rh, rh=True)
    if k != "ok":
        fails.append(failure("from_rh_vector(x.rh_vector()) succeeds", k, note=rh))
    elif not (o2 == o and o == o2) or o2.scores() != o.scores():
        fails.append(failure("equal object", "not equal", note=rh))
    return fails


def check_rh_parse(inp):
    """from_rh_vector on an arbitrary string: acceptance and error taxonomy"""
    ver, text = inp["ver"], inp["text"]
    k, val = obs.construct(ver, text, rh=True)
    if k.startswith("foreign") or k.startswith("outside") or k.startswith("other-cvss"):
        return [failure("only the RH / vector errors of CVSS%s" % ver, k, note=repr(val)[:200])]
    if "/" not in text:
        want = ["rh-malformed"]
    else:
        score, vec = text.split("/", 1)
        num = _number(score)
        verdict = ref.classify(ver, vec)[0]
        if num is None and verdict != ref.OK:
            want = ["rh-malformed", verdict]          # precedence between two faults is not fixed by the statement
        elif num is None:
            want = ["rh-malformed"]
        elif verdict != ref.OK:
            want = [verdict]
        else:
            base = scorecheck.as_floats(scorecheck.expected_scores(ver, vec))[0]
            want = ["ok"] if num == base else ["rh-mismatch"]
            if num == base and k == "ok":
                # read literally, "the number equals the computed base score": a number that differs from the score by less than
                # the resolution of a double (9.80000000000000001, 7.4999999999999999, 1e-400 for 0.0) is a differing number
                from fractions import Fraction
                ex = _exact(score)
                if ex is not None and (ex == "far" or ex != Fraction(int(round(base * 10)), 10)):
                    return [failure(["rh-mismatch"], k, key="rh.score-rounded-to-double",
                                    note="the score text denotes a number different from the base score %.1f; float() rounds it to the same double" % base)]
    if k not in want:
        return [failure(want, k, note=(str(val)[:160] if k != "ok" else None))]
    if k == "ok":
        score, vec = text.split("/", 1)
        if val.vector != vec or not (val == obs.classes()[ver](vec)):
            return [failure("object built from %r" % vec, repr(getattr(val, "vector", None)))]
    return []


CHECKS = {"rh_object": check_rh_object, "rh_parse": check_rh_parse}

SPELLINGS = ("%.1f", "%.2f", " %.1f", "%.1f ", "+%.1f", "%.1e", "%.3f", "0%.1f")


def hyp_part(n_examples, shard):
    from hypothesis import given, strategies as st
    part = runner.Part(PID)

    @st.composite
    def case(draw):
        ver = draw(gen.version_key())
        kind = draw(st.sampled_from(("object", "score-sweep", "score-sweep", "near-score", "padded-score", "special-score", "no-slash", "bad-score",
                                     "bad-vector", "both-bad", "other-score-slot")))
        v = draw(gen.valid(ver))
        if kind == "object":
            from . import c18
            names = sorted(c18.accessors(ver))
            return ver, kind, (v, draw(st.lists(st.sampled_from(names), max_size=3)))
        if kind == "score-sweep":
            k = draw(st.integers(0, 100))
            return ver, kind, draw(st.sampled_from(SPELLINGS)) % (k / 10.0) + "/" + v
        if kind == "near-score":
            # a number close to, but different from, the base score (or a long spelling of exactly the base score)
            base = scorecheck.as_floats(scorecheck.expected_scores(ver, v))[0]
            delta = draw(st.sampled_from((0.0, 0.04, -0.04, 0.05, -0.05, 0.001, -0.001, 1e-5, -1e-5, 1e-7, -1e-7, 1e-9, -1e-9,
                                          1e-12, -1e-12, 1.0, -1.0, 10.0)))
            fmt = draw(st.sampled_from(("%r", "%r", "%.17g", "%.12f", "%.2f", "%.1f0", "%.4e")))
            x = base + delta
            return ver, kind, (fmt % x) + "/" + v
        if kind == "padded-score":
            # the score part padded with ANY kind of white space / control character: float() itself decides what parses
            base = scorecheck.as_floats(scorecheck.expected_scores(ver, v))[0]
            pads = ("", " ", "\t", "\n", "\r", "\x0b", "\x0c", "\x1c", "\x1d", "\x1e", "\x1f", "\x85", "\xa0", "\u2003", "\u2028", "\u3000", "\ufeff",
                    "\x00", "\x08", "\x7f", "\u200b")
            sc = draw(st.sampled_from(("%.1f" % base, "%.1f" % ((base + 0.1) % 10.1))))
            if draw(st.integers(0, 5)) == 0:
                # thousands of digits in the score slot (beyond the limit some interpreters put on int(str)): float() still reads them
                n = draw(st.sampled_from((50, 400, 4301, 5000, 20000)))
                sc = draw(st.sampled_from((sc + "0" * n, "0" * n + sc, sc + "0" * n + "1", sc.replace(".", "." + "0" * n))))
                return ver, kind, sc + "/" + v
            return ver, kind, draw(st.sampled_from(pads)) + sc + draw(st.sampled_from(pads)) + "/" + v
        if kind == "special-score":
            sc = draw(st.sampled_from(("nan", "inf", "-inf", "-0.0", "1e1", "10", "0", "1_0", "٣.٥", "0x10", "1e400", ".5", "5.", "")))
            return ver, kind, sc + "/" + v
        if kind == "no-slash":
            return ver, kind, draw(st.text(alphabet=st.characters(blacklist_characters="/"), max_size=20))
        if kind == "bad-score":
            return ver, kind, draw(st.text(alphabet=st.characters(blacklist_characters="/"), max_size=6)) + "/" + v
        if kind == "other-score-slot":
            # the temporal/environmental score instead of the base score (they differ often)
            exp = scorecheck.as_floats(scorecheck.expected_scores(ver, v))
            alt = [x for x in exp[1:] if x is not None] or [exp[0]]
            return ver, kind, "%.1f/%s" % (draw(st.sampled_from(alt)), v)
        bad, ops = draw(gen.mutated(ver))
        if kind == "bad-vector":
            base = None
            if ref.classify(ver, bad)[0] == ref.OK:
                base = scorecheck.as_floats(scorecheck.expected_scores(ver, bad))[0]
            return ver, kind, "%.1f/%s" % (base if base is not None else draw(st.integers(0, 100)) / 10.0, bad)
        return ver, kind, draw(st.sampled_from(("x", "", "7,5", "CVSS"))) + "/" + bad

    @runner.seeded(12, shard)
    @runner.hyp_settings(n_examples)
    @given(case())
    def t(c):
        ver, kind, text = c
        if kind == "object":
            text, pre = text
            part.count({"ver": ver, "s": text, "pre": pre}, nontrivial=False, classes=("object", "v" + ver, "object-after-other-calls" if pre else "fresh-object"))
            part.check("rh_object", check_rh_object, {"ver": ver, "s": text, "pre": pre}, hyp=True)
            # and the exact round trip through the sweep check
            return
        k, _ = obs.construct(ver, text, rh=True)
        part.count({"ver": ver, "text": text}, nontrivial=(k != "ok"), classes=(kind, "v" + ver, "outcome:" + k))
        part.check("rh_parse", check_rh_parse, {"ver": ver, "text": text}, hyp=True)
    runner.run_hyp(part, t, "C12.hyp")
    return part


def sweep_part(shard, n_vectors, seed):
    """all 101 scores x seeded vectors (deterministic sweep, no Hypothesis)"""
    import random
    part = runner.Part(PID)
    rng = random.Random(runner.mix(seed, 12, shard))
    for i in range(n_vectors):
        ver = spec.VKEYS[(i + shard) % 3]
        v = gen.rng_vector(rng, ver)
        for k in range(101):
            text = "%.1f/%s" % (k / 10.0, v)
            part.check("rh_parse", check_rh_parse, {"ver": ver, "text": text})
        # near misses of the true base score: neighbouring floats and tiny offsets must be rejected
        import math
        base = scorecheck.as_floats(scorecheck.expected_scores(ver, v))[0]
        for t_ in ("%.1f0000000000000001" % base, ("%.17f" % (base - 0.05)).rstrip("0") + "4999999999999999999" if base >= 0.1 else "1e-400", "%.1f" % base + "0" * 40 + "7"):
            part.check("rh_parse", check_rh_parse, {"ver": ver, "text": "%s/%s" % (t_, v)})
            part.classes["score-below-double-resolution"] += 1
        near = [math.nextafter(base, 11.0), math.nextafter(base, -1.0), base + 1e-7, base - 1e-7, base + 1e-10, base - 1e-13]
        for x in near:
            part.check("rh_parse", check_rh_parse, {"ver": ver, "text": "%r/%s" % (x, v)})
        part.evaluations += 101 + len(near)
        part.nontrivial_count += 100 + len(near)
        part.classes["sweep-101"] += 1
    return part


def run(tier, t0):
    part = runner.hyp_shards("vf.props.c12", "hyp_part", 8000 if tier == "quick" else 240000)
    from ..fuzz import driver
    fuzz_note = driver.campaign(part, "rh", runs=160000 if tier == "quick" else 1500000)
    for p in runner.parallel("vf.props.c12", "sweep_part", [(s, 12 if tier == "quick" else 300, runner.SEED) for s in range(runner.NPROC)]):
        part.merge(p)
    rule = ("(i) objects from accepted vectors: rh_vector() format and round trip; (ii) <score>/<vector> with all 101 scores "
            "k/10 in several numeric spellings, nan/inf/-0.0/integers/non-ASCII digits, the temporal/environmental score in "
            "place of the base score, numbers within 1e-5..1e-13 of the base score and its neighbouring floats; (iii) strings without '/', non-numeric score parts, numeric score + mutated vector, both "
            "faulty. non-trivial = case that must be rejected; distinct by hash (sweep cases by construction)")
    return runner.finish(part, tier, t0, rule,
                         ["'parses as a number' = Python float() succeeds; a score text that float() reads as another double than the oracle base score must be refused",
                          "a score text that denotes a number other than the base score but rounds to the same double is expected to be refused (literal reading; listed known finding rh.score-rounded-to-double)",
                          "when both the score part and the vector part are faulty either error class is accepted", "coverage-guided: " + fuzz_note],
                         required=("object", "object-after-other-calls", "score-sweep", "near-score", "padded-score", "special-score", "no-slash", "bad-score", "bad-vector", "both-bad",
                                   "other-score-slot", "sweep-101", "score-below-double-resolution", "outcome:ok", "outcome:rh-mismatch", "outcome:rh-malformed",
                                   "outcome:malformed", "outcome:mandatory"))
