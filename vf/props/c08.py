# -*- coding: utf-8 -*-
"""
C08 - every vector string the library emits is valid for its version: accepted by the library's own
parser AND conforming to the official vectorString pattern of FIRST's JSON schema (pinned copy; for
v4.0 that pattern encodes the order Base, Threat, Environmental, Supplemental).
"""
from __future__ import unicode_literals

import itertools
import re

from .. import gen, interact, obs, ref, runner, spec
from ..runner import failure

PID = "C08"
_RX = {}


def official_rx(ver, prefix):
    key = {"2": "2.0", "4": "4.0"}.get(ver) or ("3.0" if prefix == "CVSS:3.0/" else "3.1")
    if key not in _RX:
        _RX[key] = re.compile(spec.vector_pattern(key))
    return key, _RX[key]


def _judge(ver, prefix, what, s):
    fails = []
    k, _ = obs.construct(ver, s)
    if k != "ok":
        fails.append(failure("accepted by CVSS%s" % ver, k, note="%s = %r" % (what, s)))
    key, rx = official_rx(ver, prefix)
    if not isinstance(s, type("")) or not rx.fullmatch(s):
        fails.append(failure("matches the official v%s vectorString pattern" % key, s, note=what))
    return fails


def check_emitted(inp):
    ver, s = inp["ver"], inp["s"]
    prefix, m = ref.parse(ver, s)
    o = obs.classes()[ver](s)
    pre = inp.get("pre") or []
    if pre:
        # other public accessors called first: what is emitted must not depend on what was called before
        from . import c18
        A = c18.accessors(ver)
        for name in pre:
            A[name](o)
    fails = _judge(ver, prefix, "clean_vector()" + (" after %s" % pre if pre else ""), o.clean_vector())
    rh = o.rh_vector()
    if "/" not in rh:
        fails.append(failure("score/vector", rh, note="rh_vector()"))
    else:
        fails += _judge(ver, prefix, "vector part of rh_vector()", rh.split("/", 1)[1])
    return fails


def check_builder(inp):
    version, allm, answers = inp["version"], inp["all_metrics"], inp["answers"]
    ver = interact.verkey(version)
    r = interact.run_builder(version, allm, True, answers, tty=bool(inp.get("tty")))
    if r["kind"] != "ret":
        return []        # C16's business
    return _judge(ver, interact.expected_prefix(version), "string returned by the interactive builder", r["value"])


ODD_VERSIONS = (["float", "3.5"], ["float", "3.2"], ["float", "3.01"], ["float", "3.1000000000000005"], ["float", "3.0999999999999996"], ["float", "3.9999"],
                ["decimal", "3.1"], ["decimal", "3.0"], ["decimal", "3.10"], ["fraction", "31/10"], ["fraction", "3"], ["decimal", "2"], ["decimal", "4.0"],
                ["float", "2.0"], ["float", "2.5"], ["float", "4.0"], ["float", "4.5"], ["int", "3"], ["int", "4"], ["int", "2"], ["int", "5"], ["bool", "True"],
                ["float", "nan"], ["float", "3.0000000000000004"], ["float", "2.0000000000000004"], ["float", "1e400"])


def odd_version(spec_):
    kind, text = spec_
    if kind == "float":
        return float(text)
    if kind == "int":
        return int(text)
    if kind == "bool":
        return text == "True"
    if kind == "decimal":
        import decimal
        return decimal.Decimal(text)
    from fractions import Fraction
    return Fraction(text)


def check_builder_version(inp):
    """
    the version argument as any NUMBER (3.5, Decimal('3.1'), 3.0000000000000004 ...): the builder may refuse it (an exception
    before or instead of a dialogue is no returned string) - but a string it RETURNS is an emitted vector like any other:
    accepted by one of the library's classes and matching that version's official pattern.
    """
    version = odd_version(inp["version"])
    r = interact.run_builder(version, inp["all_metrics"], True, inp["answers"], cycle=True)
    if r["kind"] != "ret":
        return []
    s = r["value"]
    for ver in spec.VKEYS:
        if obs.construct(ver, s)[0] == "ok":
            V = spec.VERS[ver]
            prefix = next((p for p in V.prefixes if s.startswith(p)), "")
            return _judge(ver, prefix, "string returned by ask_interactively(%s(%s))" % tuple(inp["version"]), s)
    return [failure("a vector that one of CVSS2 / CVSS3 / CVSS4 accepts", s, note="string returned by ask_interactively(%s(%s), all_metrics=%s)" % (inp["version"][0], inp["version"][1], inp["all_metrics"]))]


def check_emitted_accepted(inp):
    """whatever string the constructor accepts (grammar or not: that is C04's business), what the object then EMITS
    must be valid; rejected strings are outside the domain"""
    ver, s = inp["ver"], inp["s"]
    if ref.classify(ver, s)[0] == ref.OK:
        return check_emitted(inp)
    k, o = obs.construct(ver, s)
    if k != "ok":
        return []
    inp["_accepted"] = True
    fails = []
    for what, e in (("clean_vector()", o.clean_vector()), ("vector part of rh_vector()", o.rh_vector().split("/", 1)[-1])):
        prefix = e[:9] if ver == "3" else spec.VERS[ver].prefixes[0]
        if ver == "3" and prefix not in spec.VERS["3"].prefixes:
            prefix = "CVSS:3.1/"
        for f in _judge(ver, prefix, what, e):
            f["note"] = (f.get("note") or "") + " [the constructor accepted %r, which is not a grammar vector]" % s
            fails.append(f)
    return fails


CHECKS = {"emitted": check_emitted, "builder": check_builder, "emitted_accepted": check_emitted_accepted, "builder_version": check_builder_version}


def covering():
    """none / each single optional metric alone (every defined value) / all optional metrics, two orders"""
    out = []
    for ver in spec.VKEYS:
        V = spec.VERS[ver]
        for prefix in V.prefixes:
            base = dict((m, V.table[m][-1]) for m in V.mandatory)
            out.append((ver, ref.build(prefix, base, list(V.mandatory))))
            for m in V.optional:
                for v in V.table[m]:
                    d = dict(base)
                    d[m] = v
                    out.append((ver, ref.build(prefix, d, [m] + list(V.mandatory))))
            d = dict(base)
            for m in V.optional:
                d[m] = [x for x in V.table[m] if x != V.nd][0]
            out.append((ver, ref.build(prefix, d, list(V.order))))
            out.append((ver, ref.build(prefix, d, list(reversed(V.order)))))
            # pairs of optional metrics from different groups (ordering errors between groups)
            groups = list(V.groups.values())
            for g1, g2 in itertools.combinations(groups, 2):
                for m1 in g1[:3]:
                    for m2 in g2[:3]:
                        d = dict(base)
                        d[m1] = [x for x in V.table[m1] if x != V.nd][0]
                        d[m2] = [x for x in V.table[m2] if x != V.nd][0]
                        out.append((ver, ref.build(prefix, d, [m2, m1] + list(V.mandatory))))
    return out


def ball_part(shard, n_seeds, seed):
    """complete one-edit neighbourhoods: every member the constructor accepts outside the grammar goes through the check"""
    from . import c04
    part = runner.Part(PID)
    found, tried = c04.accepted_outside_grammar(shard, n_seeds, seed, 8)
    part.count(None, classes=("one-edit-ball-member-tried",), n=tried)
    for ver, t in found[:200]:
        part.classes["ball-member-accepted-outside-grammar"] += 1
        part.check("emitted_accepted", check_emitted_accepted, {"ver": ver, "s": t})
    return part


def hyp_part(n_examples, shard):
    from hypothesis import given, strategies as st
    part = runner.Part(PID)

    @st.composite
    def builder_case(draw):
        version = draw(st.sampled_from(interact.VERSIONS))
        allm = draw(st.booleans())
        V = spec.VERS[interact.verkey(version)]
        order = interact.probe_order(version, allm) or list(V.order if allm else V.mandatory)
        answers, meta = draw(interact.script_strategy(version, allm, order, complete=draw(st.sampled_from((True, True, None)))))
        return version, allm, answers, draw(st.booleans())

    from . import c18

    def vec_case(v):
        names = sorted(c18.accessors(v))
        return st.tuples(st.just("vec"), st.just(v), gen.valid_parts(v), st.lists(st.sampled_from(names), max_size=3))

    @runner.seeded(8, 100 + shard)
    @runner.hyp_settings(max(1, n_examples // 2))
    @given(gen.version_key().flatmap(lambda v: st.tuples(st.just(v), gen.mutated(v, max_edits=2))))
    def t2(c):
        ver, (s, ops) = c
        inp = {"ver": ver, "s": s}
        part.check("emitted_accepted", check_emitted_accepted, inp, hyp=True)
        acc = inp.pop("_accepted", False)
        part.count(inp, nontrivial=acc, classes=("mutant", "mutant-accepted-by-library" if acc else "mutant-rejected-or-grammar"))
    runner.run_hyp(part, t2, "C08.hyp.mutants")

    @runner.seeded(8, shard)
    @runner.hyp_settings(n_examples)
    @given(st.one_of(gen.version_key().flatmap(vec_case), builder_case()))
    def t(c):
        if c[0] == "vec":
            _, ver, (prefix, d, order), pre = c
            V = spec.VERS[ver]
            s = ref.build(prefix, d, order)
            ngroups = sum(1 for g in V.groups.values() if any(d.get(m, V.nd) != V.nd for m in g))
            part.count({"ver": ver, "s": s, "pre": pre}, nontrivial=ngroups >= 2,
                       classes=("v" + ver, "groups=%d" % ngroups, "with-prior-calls" if pre else "fresh-object"))
            part.check("emitted", check_emitted, {"ver": ver, "s": s, "pre": pre}, hyp=True)
        else:
            version, allm, answers, tty = c
            inp = {"version": version, "all_metrics": allm, "answers": answers, "tty": tty}
            part.count(inp, nontrivial=allm, classes=("builder", "builder:all" if allm else "builder:mandatory"))
            part.check("builder", check_builder, inp, hyp=True)
    runner.run_hyp(part, t, "C08.hyp")
    return part


def run(tier, t0):
    part = runner.Part(PID)
    for ver, s in covering():
        part.count(None, classes=("covering",))
        part.check("emitted", check_emitted, {"ver": ver, "s": s})
    for i, ov in enumerate(ODD_VERSIONS):
        for allm in (False, True):
            # answers: a cycle through values legal somewhere, so that any dialogue the builder starts comes to an end
            inp = {"version": list(ov), "all_metrics": allm, "answers": ["n", "l", "h", "x", "nd", "u", "a", "p", "", "c", "s", "r", "m", "o", "of", "clear"]}
            part.count(inp, nontrivial=True, classes=("builder:version-argument",))
            part.check("builder_version", check_builder_version, inp)
    for p in runner.parallel("vf.props.c08", "ball_part", [(sh, 1 if tier == "quick" else 12, runner.SEED) for sh in range(runner.NPROC)]):
        part.merge(p)
    part.merge(runner.hyp_shards("vf.props.c08", "hyp_part", 6400 if tier == "quick" else 200000))
    from ..fuzz import driver
    fuzz_note = driver.campaign(part, "dialogue", runs=120000 if tier == "quick" else 1200000, only=("builder",))
    rule = ("accepted vectors with every subset of optional metrics (uniform presence, any input order) + deterministic "
            "covering set, each vector emitted from a fresh object or after up to three other accessor calls (no optional metric; every single optional metric with every value; all optional metrics in two "
            "orders; pairs of metrics from different groups) + interactive answer scripts for every version form and both "
            "modes. non-trivial = vector with >= 2 optional groups defined, or an all-metrics builder run; distinct by hash")
    return runner.finish(part, tier, t0, rule,
                         ["official grammar = vectorString pattern of the pinned FIRST schemas (re.fullmatch)", "coverage-guided (builder results): " + fuzz_note],
                         required=("covering", "v2", "v3", "v4", "groups=0", "groups=2", "builder:all", "builder:mandatory", "with-prior-calls", "fresh-object", "mutant", "one-edit-ball-member-tried", "builder:version-argument"))
