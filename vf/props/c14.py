# -*- coding: utf-8 -*-
"""
C14 - a more severe metric value never lowers a score (where the standard is monotone).

Oracle: the order relation only (no expected values, hence independent of every pinned table).
Thorough: complete score tables computed through the library, numpy.diff along every severity axis
(v4: all 15,116,544 entries / 149,905,728 one-step pairs).  Quick: seeded sample of classes x all
their one-step-up neighbours, the change expressed through the base or the Modified metric.
"""
from __future__ import unicode_literals

import itertools
import random

from .. import ref, runner, spec
from ..runner import failure

PID = "C14"

# ---- validity and comparison of one pair (the replayable unit) -----------------------------------
DEFAULTS = {"2": {"E": "H", "RL": "U", "RC": "C"},
            "3": {"E": "H", "RL": "U", "RC": "C", "CR": "M", "IR": "M", "AR": "M"},
            "4": {"E": "A", "CR": "H", "IR": "H", "AR": "H"}}
SEV = {"2": spec.SEV2, "3": spec.SEV3, "4": spec.SEV4}
EXEMPT30 = frozenset(["C", "I", "A", "CR", "IR", "AR", "MC", "MI", "MA"])
SLOTS = {"2": (0, 1), "3": (0, 1, 2), "4": (0,)}


def _cls(ver):
    import cvss
    return {"2": cvss.CVSS2, "3": cvss.CVSS3, "4": cvss.CVSS4}[ver]


def pair_step(ver, lo, hi):
    """-> (metric, prefix) if lo/hi are accepted, differ in exactly one field and that field moves one
    severity step up (Not Defined resolved to base value / declared default); else raises"""
    plo, mlo = ref.parse(ver, lo)
    phi, mhi = ref.parse(ver, hi)
    if plo != phi or set(mlo) != set(mhi):
        raise runner.HarnessError("not a one-metric pair: %r %r" % (lo, hi))
    diff = [k for k in mlo if mlo[k] != mhi[k]]
    if len(diff) != 1:
        raise runner.HarnessError("not a one-metric pair: %r %r" % (lo, hi))
    k = diff[0]
    nd = spec.VERS[ver].nd

    def resolve(m, k):
        v = m[k]
        if v == nd:
            if k in spec.MODIFIED.get(ver, {}):
                return m[spec.MODIFIED[ver][k]]
            return DEFAULTS[ver][k]
        return v
    basek = spec.MODIFIED.get(ver, {}).get(k, k)
    order = list(SEV[ver][basek])
    a, b = resolve(mlo, k), resolve(mhi, k)
    if a not in order or b not in order or order.index(b) - order.index(a) != 1:
        raise runner.HarnessError("not one severity step up in %s: %r -> %r" % (k, a, b))
    return k, plo


def check_pair(inp):
    ver, lo, hi = inp["ver"], inp["lo"], inp["hi"]
    k, prefix = pair_step(ver, lo, hi)
    C = _cls(ver)
    slo, shi = C(lo).scores(), C(hi).scores()
    fails = []
    for slot in SLOTS[ver]:
        if ver == "3" and slot == 2 and prefix == "CVSS:3.0/" and k in EXEMPT30:
            continue   # the 3.0 standard itself is non-monotone there (exempt by the statement)
        a, b = slo[slot], shi[slot]
        if a is None or b is None:
            continue
        if b < a:
            fails.append(failure("score[%d] of the more severe vector >= %s" % (slot, a), b,
                                 note="metric %s one step more severe" % k))
    return fails


CHECKS = {"pair": check_pair}

# ---- spellings --------------------------------------------------------------------------------------
K4 = list(spec.SEV4)                       # AV PR UI AC AT VC VI VA SC SI SA CR IR AR E
DOM4 = [spec.SEV4[k] for k in K4]
HEADS4 = list(itertools.product(*DOM4[:5]))
SHAPE4 = tuple(len(d) for d in DOM4)
FMT4 = "CVSS:4.0/AV:%s/PR:%s/UI:%s/AC:%s/AT:%s/VC:%s/VI:%s/VA:%s/SC:%s/SI:%s/SA:%s/CR:%s/IR:%s/AR:%s/E:%s"


def plain4(vals):
    """vals in K4 order -> plain vector (Safety through MSI/MSA over SI:H / SA:H)"""
    v = list(vals)
    extra = ""
    if v[9] == "S":
        v[9] = "H"
        extra += "/MSI:S"
    if v[10] == "S":
        v[10] = "H"
        extra += "/MSA:S"
    return FMT4 % tuple(v) + extra


def table4(hi):
    import cvss
    CVSS4 = cvss.CVSS4
    head = HEADS4[hi]
    out = bytearray()
    for tail in itertools.product(*DOM4[5:]):
        out.append(int(round(CVSS4(plain4(head + tail)).base_score * 10)))
    return bytes(out)


K3B = ["AV", "AC", "PR", "UI", "S", "C", "I", "A"]
DOM3B = [spec.SEV3[k] for k in K3B]
BASES3 = list(itertools.product(*DOM3B))
T3 = list(itertools.product(spec.SEV3["E"], spec.SEV3["RL"], spec.SEV3["RC"]))
R3 = list(itertools.product("LMH", "LMH", "LMH"))
FIXED_BASE3 = "AV:L/AC:H/PR:L/UI:R/S:U/C:L/I:L/A:N"


def table3(unit):
    """-> (base score, temporal[48], env via base spelling [27*48], env via Modified spelling [27*48])"""
    import cvss
    CVSS3 = cvss.CVSS3
    minor, bi = divmod(unit, len(BASES3))
    b = BASES3[bi]
    pre = "CVSS:3.%d/" % minor
    bs = "AV:%s/AC:%s/PR:%s/UI:%s/S:%s/C:%s/I:%s/A:%s" % b
    ms = "MAV:%s/MAC:%s/MPR:%s/MUI:%s/MS:%s/MC:%s/MI:%s/MA:%s" % b
    base = None
    temporal = bytearray()
    e1 = bytearray()
    e2 = bytearray()
    for t in T3:
        ts = "/E:%s/RL:%s/RC:%s" % t
        s = CVSS3(pre + bs + ts).scores()
        base = int(round(s[0] * 10))
        temporal.append(int(round(s[1] * 10)))
    for r in R3:
        rs = "/CR:%s/IR:%s/AR:%s" % r
        for t in T3:
            ts = "/E:%s/RL:%s/RC:%s" % t
            e1.append(int(round(CVSS3(pre + bs + rs + ts).scores()[2] * 10)))
            e2.append(int(round(CVSS3(pre + FIXED_BASE3 + "/" + ms + rs + ts).scores()[2] * 10)))
    return base, bytes(temporal), bytes(e1), bytes(e2)


K2B = ["AV", "AC", "Au", "C", "I", "A"]
DOM2B = [spec.SEV2[k] for k in K2B]
BASES2 = list(itertools.product(*DOM2B))
T2 = list(itertools.product(spec.SEV2["E"], spec.SEV2["RL"], spec.SEV2["RC"]))


def table2(bi):
    import cvss
    b = BASES2[bi]
    bs = "AV:%s/AC:%s/Au:%s/C:%s/I:%s/A:%s" % b
    base = None
    temporal = bytearray()
    for t in T2:
        s = cvss.CVSS2(bs + "/E:%s/RL:%s/RC:%s" % t).scores()
        base = int(round(s[0] * 10))
        temporal.append(int(round(s[1] * 10)))
    return base, bytes(temporal)


def _diff_violations(np, arr, axes_names, doms, skip=()):
    """-> (pairs checked, visible pairs, list of (index tuple, axis)) for negative steps"""
    pairs = visible = 0
    bad = []
    for ax, name in enumerate(axes_names):
        if name in skip or arr.shape[ax] < 2:
            continue
        d = np.diff(arr.astype(np.int16), axis=ax)
        pairs += d.size
        visible += int((d != 0).sum())
        neg = np.argwhere(d < 0)
        for idx in neg[:50]:
            bad.append((tuple(int(i) for i in idx), ax))
    return pairs, visible, bad


def thorough(part):
    import numpy as np
    # ---------------- v4 ----------------
    res = runner.parallel("vf.props.c14", "table4", [(h,) for h in range(len(HEADS4))])
    for r in res:
        if isinstance(r, runner.Part):
            part.merge(r)
            return
    a4 = np.frombuffer(b"".join(res), dtype=np.uint8).reshape(SHAPE4)
    pairs, vis, bad = _diff_violations(np, a4, K4, DOM4)
    part.evaluations += pairs
    part.nontrivial_count += vis
    part.classes["v4 pairs"] += pairs
    for idx, ax in bad:
        lo = [DOM4[i][j] for i, j in enumerate(idx)]
        hi = list(lo)
        hi[ax] = DOM4[ax][idx[ax] + 1]
        lov, hiv = plain4(lo), plain4(hi)
        if lo[ax] == "H" and hi[ax] == "S":   # keep the pair a one-field change
            lov = lov + "/M%s:X" % K4[ax]
        _record(part, "4", lov, hiv)
    part.samples.append({"ver": "4", "lo": plain4([d[0] for d in DOM4]), "hi": plain4([DOM4[0][1]] + [d[0] for d in DOM4[1:]])})
    # ---------------- v3 ----------------
    res = runner.parallel("vf.props.c14", "table3", [(u,) for u in range(2 * len(BASES3))], chunksize=16)
    for r in res:
        if isinstance(r, runner.Part):
            part.merge(r)
            return
    shape_b = tuple(len(d) for d in DOM3B)
    for minor in (0, 1):
        rows = res[minor * len(BASES3):(minor + 1) * len(BASES3)]
        base = np.array([r[0] for r in rows], dtype=np.uint8).reshape(shape_b)
        temp = np.frombuffer(b"".join(r[1] for r in rows), dtype=np.uint8).reshape(shape_b + (4, 4, 3))
        env1 = np.frombuffer(b"".join(r[2] for r in rows), dtype=np.uint8).reshape(shape_b + (3, 3, 3, 4, 4, 3))
        env2 = np.frombuffer(b"".join(r[3] for r in rows), dtype=np.uint8).reshape(shape_b + (3, 3, 3, 4, 4, 3))
        pre = "CVSS:3.%d/" % minor
        names_t = K3B + ["E", "RL", "RC"]
        names_e = K3B + ["CR", "IR", "AR", "E", "RL", "RC"]
        doms_t = DOM3B + [spec.SEV3["E"], spec.SEV3["RL"], spec.SEV3["RC"]]
        doms_e = DOM3B + ["LMH"] * 3 + [spec.SEV3["E"], spec.SEV3["RL"], spec.SEV3["RC"]]
        skip = ("C", "I", "A", "CR", "IR", "AR") if minor == 0 else ()
        for label, arr, names, doms, sk, style in (
                ("base", base, K3B, DOM3B, (), "b"), ("temporal", temp, names_t, doms_t, (), "t"),
                ("env(base spelling)", env1, names_e, doms_e, skip, "e1"),
                ("env(Modified spelling)", env2, names_e, doms_e, skip, "e2")):
            pairs, vis, bad = _diff_violations(np, arr, names, doms, sk)
            part.evaluations += pairs
            part.nontrivial_count += vis
            part.classes["v3.%d %s pairs" % (minor, label)] += pairs
            for idx, ax in bad:
                lo = [doms[i][j] for i, j in enumerate(idx)]
                hi = list(lo)
                hi[ax] = doms[ax][idx[ax] + 1]
                _record(part, "3", _spell3(pre, names, lo, style), _spell3(pre, names, hi, style))
    # ---------------- v2 ----------------
    res = runner.parallel("vf.props.c14", "table2", [(u,) for u in range(len(BASES2))], chunksize=16)
    shape2 = tuple(len(d) for d in DOM2B)
    base = np.array([r[0] for r in res], dtype=np.uint8).reshape(shape2)
    temp = np.frombuffer(b"".join(r[1] for r in res), dtype=np.uint8).reshape(shape2 + (4, 4, 3))
    names = K2B + ["E", "RL", "RC"]
    doms = DOM2B + [spec.SEV2["E"], spec.SEV2["RL"], spec.SEV2["RC"]]
    for label, arr, nm, dm in (("base", base, K2B, DOM2B), ("temporal", temp, names, doms)):
        pairs, vis, bad = _diff_violations(np, arr, nm, dm)
        part.evaluations += pairs
        part.nontrivial_count += vis
        part.classes["v2 %s pairs" % label] += pairs
        for idx, ax in bad:
            lo = [dm[i][j] for i, j in enumerate(idx)]
            hi = list(lo)
            hi[ax] = dm[ax][idx[ax] + 1]
            f = lambda vals: "/".join("%s:%s" % kv for kv in zip(nm, vals)) + ("" if len(vals) > 6 else "/E:F/RL:W/RC:UR")
            _record(part, "2", f(lo), f(hi))


def _spell3(pre, names, vals, style):
    d = dict(zip(names, vals))
    if style == "e2":
        s = pre + FIXED_BASE3 + "/" + "/".join("M%s:%s" % (k, d[k]) for k in K3B)
    else:
        s = pre + "/".join("%s:%s" % (k, d[k]) for k in K3B)
    rest = [k for k in names if k not in K3B]
    if rest:
        s += "/" + "/".join("%s:%s" % (k, d[k]) for k in rest)
    return s


def _record(part, ver, lo, hi):
    part.check("pair", check_pair, {"ver": ver, "lo": lo, "hi": hi})


# ---- quick: sampled classes x one-step-up neighbours -----------------------------------------------

def quick_work(shard, n4, n3, n2, seed):
    part = runner.Part(PID)
    rng = random.Random(runner.mix(seed, 14, shard))
    import cvss
    cache = {}

    def sc(C, v):
        r = cache.get(v)
        if r is None:
            r = cache[v] = C(v).scores()
        return r

    def do(ver, C, lo, hi, k, prefix):
        slo, shi = sc(C, lo), sc(C, hi)
        vis = False
        for slot in SLOTS[ver]:
            if ver == "3" and slot == 2 and prefix == "CVSS:3.0/" and k in EXEMPT30:
                continue
            a, b = slo[slot], shi[slot]
            if a is None or b is None:
                continue
            if b < a:
                part.bad.append((ver, lo, hi))
            if b != a:
                vis = True
        if part.evaluations & 63 == 0:
            part.reserve("pair", {"ver": ver, "lo": lo, "hi": hi})      # sample re-run in other interpreter modes
        part.evaluations += 1
        part.classes["v%s pairs" % ver] += 1
        if vis:
            part.nontrivial_count += 1
            if len(part.samples) < 2 and shard < 5:
                part.samples.append({"ver": ver, "lo": lo, "hi": hi, "scores": [list(slo), list(shi)]})

    # v4: effective class, each metric expressed through base or Modified metric
    from .. import oracles
    macro_keys = sorted(oracles.look())
    for i4 in range(n4):
        if i4 % 2:
            # stratified: every macrovector gets the same attention (uniform sampling almost never visits the thin ones)
            eff = oracles.random_in_macro(rng, macro_keys[(i4 // 2 + shard * 17) % len(macro_keys)])
            part.classes["v4 macrovector-stratified classes"] += 1
        else:
            eff = dict((k, rng.choice(d)) for k, d in zip(K4, DOM4))
        style = dict((k, rng.random() < 0.5) for k in K4[:11])   # True: via Modified metric
        base = {}
        for k in K4[:11]:
            if eff[k] == "S":
                style[k] = True
            if style[k]:
                base[k] = rng.choice([x for x in spec.V4[k]])
            else:
                base[k] = eff[k]

        def spell(e):
            f = []
            for k in K4[:11]:
                f.append("%s:%s" % (k, base[k] if style[k] else e[k]))
                if style[k]:
                    f.append("M%s:%s" % (k, e[k]))
            for k in K4[11:]:
                f.append("%s:%s" % (k, e[k]))
            return "CVSS:4.0/" + "/".join(f)
        lo = spell(eff)
        for k, d in zip(K4, DOM4):
            i = d.index(eff[k])
            if i + 1 < len(d):
                up = d[i + 1]
                if up == "S" and not style[k]:
                    continue      # Safety needs the Modified metric; covered when style is Modified
                e2 = dict(eff)
                e2[k] = up
                do("4", cvss.CVSS4, lo, spell(e2), ("M" + k) if (k in style and style[k]) else k, "CVSS:4.0/")
        # a base metric that is overridden by its Modified metric is still 'a single metric': one step up must not lower the score
        for k in K4[:11]:
            if style[k]:
                d = [x for x in SEV["4"][k] if x in spec.V4[k]]
                if base[k] in d and d.index(base[k]) + 1 < len(d):
                    old_b = base[k]
                    base[k] = d[d.index(old_b) + 1]
                    hi = spell(eff)
                    base[k] = old_b
                    part.classes["overridden-base-metric step"] += 1
                    do("4", cvss.CVSS4, lo, hi, k, "CVSS:4.0/")
    # v3
    names = K3B + ["CR", "IR", "AR", "E", "RL", "RC"]
    doms = DOM3B + ["LMH"] * 3 + [spec.SEV3["E"], spec.SEV3["RL"], spec.SEV3["RC"]]
    for _ in range(n3):
        minor = rng.randrange(2)
        pre = "CVSS:3.%d/" % minor
        eff = dict((k, rng.choice(d)) for k, d in zip(names, doms))
        mod = dict((k, rng.random() < 0.5) for k in K3B)
        base = dict((k, (rng.choice(spec.SEV3[k]) if mod[k] else eff[k])) for k in K3B)

        def spell3(e):
            f = []
            for k in K3B:
                f.append("%s:%s" % (k, base[k] if mod[k] else e[k]))
                if mod[k]:
                    f.append("M%s:%s" % (k, e[k]))
            for k in names[8:]:
                f.append("%s:%s" % (k, e[k]))
            return pre + "/".join(f)
        lo = spell3(eff)
        for k, d in zip(names, doms):
            i = d.index(eff[k])
            if i + 1 < len(d):
                e2 = dict(eff)
                e2[k] = d[i + 1]
                kk = ("M" + k) if (k in mod and mod[k]) else k
                do("3", cvss.CVSS3, lo, spell3(e2), kk, pre)
        for k in K3B:
            if mod[k]:
                d = list(spec.SEV3[k])
                if d.index(base[k]) + 1 < len(d):
                    old_b = base[k]
                    base[k] = d[d.index(old_b) + 1]
                    hi = spell3(eff)
                    base[k] = old_b
                    part.classes["overridden-base-metric step"] += 1
                    do("3", cvss.CVSS3, lo, hi, k, pre)
    # v2
    names2 = K2B + ["E", "RL", "RC"]
    doms2 = DOM2B + [spec.SEV2["E"], spec.SEV2["RL"], spec.SEV2["RC"]]
    for _ in range(n2):
        eff = dict((k, rng.choice(d)) for k, d in zip(names2, doms2))
        sp = lambda e: "/".join("%s:%s" % (k, e[k]) for k in names2)
        lo = sp(eff)
        for k, d in zip(names2, doms2):
            i = list(d).index(eff[k])
            if i + 1 < len(d):
                e2 = dict(eff)
                e2[k] = d[i + 1]
                do("2", cvss.CVSS2, lo, sp(e2), k, "")
    return part


def run(tier, t0):
    part = runner.Part(PID)
    if tier == "thorough":
        thorough(part)
        n4, n3, n2 = 4000, 4000, 1000
    else:
        n4, n3, n2 = 7500, 6000, 1500
    for p in runner.parallel("vf.props.c14", "quick_work", [(s, n4, n3, n2, runner.SEED) for s in range(runner.NPROC)]):
        part.merge(p)
    seen = set()
    for ver, lo, hi in part.bad:
        if (lo, hi) in seen or len(seen) > 40:
            continue
        seen.add((lo, hi))
        _record(part, ver, lo, hi)
    rule = ("pairs of accepted vectors that differ in exactly one metric by one severity step (orders typed from the "
            "specifications; Not Defined resolved to the base value / declared default); thorough: every such pair of "
            "the complete score tables (v4 15,116,544 entries; v3 base, temporal and environmental in base and Modified "
            "spelling; v2 base and temporal) plus sampled pairs with mixed base/Modified spelling; quick: seeded sample "
            "of classes x all their one-step-up neighbours. v3.0 environmental score exempt for C/I/A, CR/IR/AR and "
            "MC/MI/MA. non-trivial = pair whose two scores differ (the step is visible); pairs of a table are "
            "distinct by construction, sampled pairs are counted per execution")
    return runner.finish(
        part, tier, t0, rule,
        ["oracle is the order relation only; severity orders typed from the specifications",
         "thorough tables use the plain spelling of each effective assignment; other spellings rest on C05/C06 and the sampled mixed-spelling pairs"],
        exhaustive=(tier == "thorough"), required=("v4 pairs", "v3 pairs", "v2 pairs", "overridden-base-metric step"))
