# -*- coding: utf-8 -*-
"""
C07 - clean_vector() is a canonical form; equality and hash are consistent with it.
Oracle: model key (version incl. minor, defined metric map) from the reference parser.
"""
from __future__ import unicode_literals

from .. import gen, obs, ref, runner, spec
from ..runner import failure

PID = "C07"


def _fields(ver, prefix, clean):
    body = clean[len(prefix):] if prefix else clean
    return [f for f in body.split("/")] if body else []


def check_canonical(inp):
    """single vector: clean_vector lists exactly the defined metrics once each behind the prefix; re-parse
    yields an equal object with the same observables and clean vector (idempotence)"""
    ver, s = inp["ver"], inp["s"]
    prefix, m = ref.parse(ver, s)
    want = ref.defined(ver, m)
    k, o = obs.construct(ver, s)
    if k != "ok":
        return [failure("accepted", k)]
    fails = []
    clean = o.clean_vector()
    if not clean.startswith(prefix):
        return [failure(prefix, clean, note="prefix of clean_vector()")]
    fs = _fields(ver, prefix, clean)
    got = [tuple(f.split(":", 1)) if ":" in f else (f, None) for f in fs]
    if sorted(got) != sorted(want.items()):
        fails.append(failure(sorted(want.items()), sorted(got), note="clean_vector() must list exactly the defined metrics, once each"))
    if ver != "2":
        np_ = o.clean_vector(output_prefix=False)
        if prefix + np_ != clean:
            fails.append(failure(clean[len(prefix):], np_, note="output_prefix=False must only omit the prefix"))
        if o.clean_vector(output_prefix=True) != clean:
            fails.append(failure(clean, o.clean_vector(output_prefix=True), note="output_prefix=True"))
    # the same accessors on a second object in another call order (hash and == first): a canonical form must not
    # depend on what was called before
    o3 = obs.classes()[ver](s)
    hash(o3)
    (o3 == o)
    if ver != "2":
        np3 = o3.clean_vector(output_prefix=False)
        if np3 != clean[len(prefix):]:
            fails.append(failure(clean[len(prefix):], np3, note="clean_vector(output_prefix=False) after hash()/=="))
    if o3.clean_vector() != clean:
        fails.append(failure(clean, o3.clean_vector(), note="clean_vector() after hash()/==/clean_vector(output_prefix=False)"))
    k2, o2 = obs.construct(ver, clean)
    if k2 != "ok":
        fails.append(failure("clean vector re-parses", k2, note=clean))
        return fails
    if not (o2 == o and o == o2):
        fails.append(failure(True, False, note="re-parsed clean vector is not equal to the original"))
    if hash(o2) != hash(o):
        fails.append(failure(hash(o), hash(o2), note="hash of re-parsed clean vector"))
    x1, x2 = obs.observables(ver, o), obs.observables(ver, o2)
    for key in sorted(x1):
        if x1[key] != x2[key]:
            fails.append(failure(x1[key], x2[key], note="%s changes when the clean vector is re-parsed" % key))
    if o2.clean_vector() != clean:
        fails.append(failure(clean, o2.clean_vector(), note="clean_vector() not idempotent"))
    return fails


def check_order(inp):
    """two vectors of one version: every two metrics keep the same relative order in both clean vectors"""
    ver, a, b = inp["ver"], inp["a"], inp["b"]
    C = obs.classes()[ver]
    pos = []
    for s in (a, b):
        prefix, _ = ref.parse(ver, s)
        fs = _fields(ver, prefix, C(s).clean_vector())
        pos.append(dict((f.split(":")[0], i) for i, f in enumerate(fs)))
    fails = []
    common = sorted(set(pos[0]) & set(pos[1]))
    for i, x in enumerate(common):
        for y in common[i + 1:]:
            if (pos[0][x] < pos[0][y]) != (pos[1][x] < pos[1][y]):
                fails.append(failure("one fixed metric order", "%s and %s swap between the two clean vectors" % (x, y)))
                return fails
    return fails


def check_pair(inp):
    """two vectors (any versions): == iff model keys equal; equal => equal hash/observables; symmetric"""
    va, a, vb, b = inp["ver_a"], inp["a"], inp["ver_b"], inp["b"]
    pa, ma = ref.parse(va, a)
    pb, mb = ref.parse(vb, b)
    want = ref.model_key(va, pa, ma) == ref.model_key(vb, pb, mb)
    oa, ob = obs.classes()[va](a), obs.classes()[vb](b)
    fails = []
    ab, ba = (oa == ob), (ob == oa)
    if ab is not want or ba is not want:
        fails.append(failure(want, [ab, ba], note="a == b / b == a vs 'same version and same defined metric values'"))
    if (oa != ob) is want:
        fails.append(failure(not want, (oa != ob), note="a != b"))
    if not (oa == oa) or not (ob == ob):
        fails.append(failure(True, False, note="reflexivity"))
    if want:
        if hash(oa) != hash(ob):
            fails.append(failure("equal hashes", [hash(oa), hash(ob)], note="equal objects must have equal hashes"))
        xa, xb = obs.observables(va, oa, with_hash=False), obs.observables(vb, ob, with_hash=False)
        for key in sorted(xa):
            if xa[key] != xb.get(key):
                fails.append(failure(xa[key], xb.get(key), note="%s differs between equal objects" % key))
    # objects that exist besides the ones the constructor returns: copies, and instances of a subclass that adds nothing
    for how in obs.CLONERS:
        c = obs.clone(oa, how)
        if c is None:
            continue
        if not (c == oa) or not (oa == c) or (c != oa) or hash(c) != hash(oa):
            fails.append(failure("a copy equals its original, both ways round, with the same hash", [c == oa, oa == c, c != oa, hash(c) == hash(oa)], note=how))
        elif obs.observables(va, c) != obs.observables(va, oa):
            fails.append(failure(obs.observables(va, oa), obs.observables(va, c), note="outputs of a copy (%s)" % how))
        if (c == ob) is not want:
            fails.append(failure(want, (c == ob), note="%s of a compared with b" % how))
    try:
        sa = obs.trivial_subclass(obs.classes()[va])(a)
    except Exception as e:  # noqa
        fails.append(failure("class Sub(C): pass accepts what C accepts", "%s: %s" % (type(e).__name__, e)))
        sa = None
    if sa is not None:
        for x in (oa, ob):
            eq = [(sa == x), (x == sa)]
            if eq[0] is not eq[1]:
                fails.append(failure("symmetric", eq, note="instance of a subclass that adds nothing, compared with a plain object"))
            if eq[0] is True and hash(sa) != hash(x):
                fails.append(failure("equal hashes", [hash(sa), hash(x)], note="an instance of 'class Sub(C): pass' equals the plain object but hashes differently"))
        if obs.observables(va, sa, with_hash=False) != obs.observables(va, oa, with_hash=False):
            fails.append(failure(obs.observables(va, oa, with_hash=False), obs.observables(va, sa, with_hash=False), note="outputs of an instance of 'class Sub(C): pass'"))
    if (oa in {ob}) is not want or (ob in [oa]) is not want:
        fails.append(failure(want, [(oa in {ob}), (ob in [oa])], note="membership in set / list"))
    if len({oa, ob}) != (1 if want else 2):
        fails.append(failure(1 if want else 2, len({oa, ob}), note="len({a, b})"))
    return fails


def check_triple(inp):
    """transitivity on three vectors of one version"""
    ver = inp["ver"]
    C = obs.classes()[ver]
    a, b, c = (C(s) for s in inp["vectors"])
    if a == b and b == c and not (a == c):
        return [failure("a == c", False, note="equality not transitive")]
    keys = [ref.model_key(ver, *ref.parse(ver, s)) for s in inp["vectors"]]
    fails = []
    for (x, kx), (y, ky) in (((a, keys[0]), (c, keys[2])), ((a, keys[0]), (b, keys[1])), ((b, keys[1]), (c, keys[2]))):
        if (x == y) is not (kx == ky):
            fails.append(failure(kx == ky, x == y, note="equality vs model key inside a triple"))
    return fails


def check_foreign(inp):
    """an object never equals a value of another type"""
    ver, s = inp["ver"], inp["s"]
    o = obs.classes()[ver](s)
    clean = o.clean_vector()
    foreign = [clean, s, None, 0, 1.5, (clean,), [clean], {"vector": clean}, clean.encode("utf-8"), o.scores(),
               object(), hash(o), type(o)]
    fails = []

    class Agreeable(object):
        """a foreign value that claims to be equal to everything (unittest.mock.ANY, SQL expression objects, matchers): what
        `obj == it` answers is decided by the object on the left first - the statement says 'never'"""
        def __eq__(self, other):
            return True

        def __ne__(self, other):
            return False
        __hash__ = None
    a = Agreeable()
    try:
        r = [(o == a), (o != a)]
    except BaseException as e:  # noqa
        r = "%s raised" % type(e).__name__
    if r != [False, True]:
        fails.append(failure([False, True], r, note="obj == x, obj != x for a foreign x whose own __eq__ answers True to everything"))
    for f in foreign:
        try:
            r1, r2 = (o == f), (f == o)
        except BaseException as e:  # noqa
            fails.append(failure(False, "%s raised by == %r" % (type(e).__name__, f)))
            continue
        if r1 is not False or r2 is not False:
            fails.append(failure(False, [r1, r2], note="object compares equal to %r" % (f,)))
    return fails


def check_depth(inp):
    """
    the same questions asked at every call depth near the interpreter's recursion limit: a call either does not complete
    (RecursionError reaches the caller) or answers what it answers anywhere else.  Code that swallows exceptions wholesale
    turns the former into a wrong answer exactly there.  Runs in a thread of its own with a temporarily lowered limit.
    """
    import sys
    import threading
    va, a, vb, b = inp["ver_a"], inp["a"], inp["ver_b"], inp["b"]
    Ca, Cb = obs.classes()[va], obs.classes()[vb]
    oa, ob = Ca(a), Cb(b)

    questions = (lambda: oa == ob, lambda: ob == oa, lambda: oa != ob, lambda: oa == oa, lambda: hash(oa) == hash(ob), lambda: oa in [ob],
                 lambda: oa.clean_vector(), lambda: list(oa.scores()), lambda: list(oa.severities()), lambda: oa.rh_vector(),
                 lambda: sorted(oa.as_json(sort=True, minimal=True).items()), lambda: list(Ca(a).scores()), lambda: Ca(a) == oa)

    def ask():
        return [q() for q in questions]

    def dive(n, q):
        if n <= 0:
            return q()
        return dive(n - 1, q)
    box = {}

    def body():
        old = sys.getrecursionlimit()
        try:
            box["base"] = ask()
            limit = 400
            sys.setrecursionlimit(limit)
            out = []
            for n in range(limit - 130, limit + 2):
                row = []
                for q in questions:          # one question per dive: each needs another number of frames
                    try:
                        row.append([dive(n, q)])
                    except RecursionError:
                        row.append(None)
                out.append((n, row))
            box["out"] = out
        except BaseException as e:  # noqa
            box["exc"] = e
        finally:
            sys.setrecursionlimit(old)
    t = threading.Thread(target=body)
    t.start()
    t.join()
    if "exc" in box:
        return [failure("answers or RecursionError", "%s: %s" % (type(box["exc"]).__name__, box["exc"]))]
    fails = []
    answered = sum(1 for n, row in box["out"] for r in row if r is not None)
    total = sum(len(row) for n, row in box["out"])
    for n, row in box["out"]:
        for i, r in enumerate(row):
            if r is not None and r[0] != box["base"][i]:
                fails.append(failure(box["base"][i], r[0], note="question %d asked %d frames deep (recursion limit 400) is ANSWERED, and differently from the same question at the top" % (i, n)))
                return fails
    if answered == total:
        raise runner.HarnessError("depth sweep did not reach the recursion limit (%d of %d questions answered)" % (answered, total))
    return fails          # (nothing answered 130 frames below the limit: an implementation with deep call chains; nothing to judge)


WARMS = ("hash", "eq", "clean", "rh", "json", "scores", "set")


def check_carried(inp):
    """an object that was built, used and pickled in another process (another string-hash salt) and a fresh object of the same
    string: they define the same metric values, so they are equal, hash alike, and give the same outputs; likewise against b"""
    ver, s, b = inp["ver"], inp["s"], inp.get("b", inp["s"])
    C = obs.classes()[ver]
    got = obs.carried([(ver, s, list(inp["warm"]))], inp["hashseed"])[0]
    if got is None:
        return []                                   # cannot be pickled: nothing arrives, nothing to judge
    fresh, ob = C(s), C(b)
    want = ref.model_key(ver, *ref.parse(ver, s)) == ref.model_key(ver, *ref.parse(ver, b))
    fails = []
    for u in got:
        try:
            eq = [(u == fresh), (fresh == u), (u != fresh)]
            if eq != [True, True, False]:
                fails.append(failure([True, True, False], eq, note="object carried over from another process vs a fresh object of the same string (==, ==, !=)"))
                continue
            if hash(u) != hash(fresh):
                fails.append(failure("equal objects have equal hashes", [hash(u), hash(fresh)], note="object pickled in a process with PYTHONHASHSEED=%s after %s" % (inp["hashseed"], inp["warm"])))
            if (u in {fresh}) is not True or (fresh in {u}) is not True:
                fails.append(failure(True, [(u in {fresh}), (fresh in {u})], note="set membership of the carried object"))
            if (u == ob) is not want or (want and hash(u) != hash(ob)):
                fails.append(failure(want, [(u == ob), hash(u) == hash(ob)], note="carried object compared with b"))
            if obs.observables(ver, u, with_hash=False) != obs.observables(ver, fresh, with_hash=False):
                fails.append(failure(obs.observables(ver, fresh, with_hash=False), obs.observables(ver, u, with_hash=False), note="outputs of the carried object"))
        except BaseException as e:  # noqa
            fails.append(failure("no exception", "%s: %s" % (type(e).__name__, e), note="using an object carried over from another process"))
    return fails


CHECKS = {"carried": check_carried, "canonical": check_canonical, "order": check_order, "pair": check_pair, "triple": check_triple,
          "foreign": check_foreign, "depth": check_depth}


def depth_part(shard, n, seed):
    import random
    part = runner.Part(PID)
    rng = random.Random(runner.mix(seed, 77, shard))
    for i in range(n):
        ver = spec.VKEYS[(i + shard) % 3]
        a = gen.rng_vector(rng, ver, p_opt=0.5)
        prefix, m = ref.parse(ver, a)
        ks = list(m)
        rng.shuffle(ks)
        b = ref.build(prefix, m, ks) if i % 3 else gen.rng_vector(rng, ver)
        inp = {"ver_a": ver, "a": a, "ver_b": ver, "b": b}
        part.count(inp, nontrivial=True, classes=("depth-sweep",))
        part.check("depth", check_depth, inp)
    return part


def carried_part(shard, n, seed):
    import random
    part = runner.Part(PID)
    rng = random.Random(runner.mix(seed, 78, shard))
    for i in range(n):
        ver = spec.VKEYS[(i + shard) % 3]
        a = gen.rng_vector(rng, ver, p_opt=0.5)
        prefix, m = ref.parse(ver, a)
        ks = list(m)
        rng.shuffle(ks)
        b = ref.build(prefix, m, ks) if i % 2 else gen.rng_vector(rng, ver)
        warm = [w for w in WARMS if rng.random() < 0.4]
        rng.shuffle(warm)
        inp = {"ver": ver, "s": a, "b": b, "warm": warm, "hashseed": rng.choice((1, 2, 3, 12345, "random"))}
        part.count(inp, nontrivial=bool(warm), classes=("carried", "carried:hash-first" if "hash" in warm or "set" in warm else "carried:other"))
        part.check("carried", check_carried, inp)
    return part


def pair_strategy():
    from hypothesis import strategies as st

    @st.composite
    def s(draw):
        va = draw(gen.version_key())
        V = spec.VERS[va]
        prefix, d, order = draw(gen.valid_parts(va))
        a = ref.build(prefix, d, order)
        kind = draw(st.sampled_from(("respell", "one-metric", "several", "minor-twin", "other-version", "independent")))
        vb = va
        if kind == "respell":
            d2 = dict(d)
            for m in V.optional:
                if d.get(m, V.nd) == V.nd and draw(st.booleans()):
                    if m in d2:
                        del d2[m]
                    else:
                        d2[m] = V.nd
            b = ref.build(prefix, d2, gen.ordered(set(d2), V.order, draw(gen.order_seed())))
        elif kind in ("one-metric", "several"):
            d2 = dict(d)
            n = 1 if kind == "one-metric" else draw(st.integers(2, 4))
            for _ in range(n):
                m = draw(st.sampled_from(V.order))
                choices = [x for x in V.table[m]] + ([None] if m in V.optional else [])
                nv = draw(st.sampled_from(choices))
                if nv is None:
                    d2.pop(m, None)
                else:
                    d2[m] = nv
            b = ref.build(prefix, d2, gen.ordered(set(d2), V.order, draw(gen.order_seed())))
        elif kind == "minor-twin":
            if va == "3":
                p2 = "CVSS:3.1/" if prefix == "CVSS:3.0/" else "CVSS:3.0/"
                b = ref.build(p2, d, order)
            else:
                b = a
        elif kind == "other-version":
            vb = draw(gen.version_key())
            b = draw(gen.valid(vb))
        else:
            b = draw(gen.valid(va))
        return kind, va, a, vb, b
    return s()


def hyp_part(n_examples, shard):
    from hypothesis import given, strategies as st
    part = runner.Part(PID)
    first_seen = {}     # (ver, x, y) -> vector in whose clean vector x precedes y

    @runner.seeded(7, shard)
    @runner.hyp_settings(n_examples)
    @given(pair_strategy(), st.integers(0, 3))
    def t(c, extra):
        kind, va, a, vb, b = c
        part.count({"kind": kind, "a": a, "b": b}, nontrivial=(a != b), classes=("pair:" + kind, "v" + va))
        part.check("canonical", check_canonical, {"ver": va, "s": a}, hyp=True)
        part.check("pair", check_pair, {"ver_a": va, "a": a, "ver_b": vb, "b": b}, hyp=True)
        if va == vb:
            part.check("order", check_order, {"ver": va, "a": a, "b": b}, hyp=True)
            part.check("triple", check_triple, {"ver": va, "vectors": [a, b, obs.classes()[va](a).clean_vector()]}, hyp=True)
        if extra == 0:
            part.classes["foreign"] += 1
            part.check("foreign", check_foreign, {"ver": va, "s": a}, hyp=True)
        # run-wide precedence relation must stay antisymmetric (one fixed order across ALL outputs)
        prefix, _ = ref.parse(va, a)
        fs = [f.split(":")[0] for f in _fields(va, prefix, obs.classes()[va](a).clean_vector())]
        for i, x in enumerate(fs):
            for y in fs[i + 1:]:
                other = first_seen.get((va, y, x))
                if other is not None:
                    part.check("order", check_order, {"ver": va, "a": other, "b": a}, hyp=True)
                first_seen.setdefault((va, x, y), a)
    runner.run_hyp(part, t, "C07.hyp")
    return part


def run(tier, t0):
    part = runner.hyp_shards("vf.props.c07", "hyp_part", 14000 if tier == "quick" else 240000)
    for p in runner.parallel("vf.props.c07", "depth_part", [(sh, 3 if tier == "quick" else 40, runner.SEED) for sh in range(runner.NPROC)]):
        part.merge(p)
    for p in runner.parallel("vf.props.c07", "carried_part", [(sh, 6 if tier == "quick" else 120, runner.SEED) for sh in range(runner.NPROC)]):
        part.merge(p)
    rule = ("single accepted vectors and pairs built as: other spelling of the same assignment, one metric changed, "
            "several changed, 3.0/3.1 twin, vector of another version, independent vector; triples (a, b, clean(a)); "
            "non-CVSS values (own clean string, None, tuple, bytes, ...); objects built, used and pickled in a child process with another hash seed. non-trivial = pair whose members differ as "
            "strings; distinct by 64-bit hash")
    return runner.finish(part, tier, t0, rule,
                         ["'one fixed order' is read as a consistent relative order of any two metrics across all outputs of the run (the official order is C08's business)"],
                         required=["pair:" + k for k in ("respell", "one-metric", "several", "minor-twin", "other-version", "independent")] + ["foreign", "v2", "v3", "v4", "depth-sweep", "carried", "carried:hash-first"])
