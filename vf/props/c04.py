# -*- coding: utf-8 -*-
"""
C04 - vector acceptance is exactly the version's grammar; errors follow the taxonomy.

Generators: (i) Hypothesis: valid vectors, 1..3-operation mutants (15 character- and field-level
operators incl. Unicode look-alikes), arbitrary text; (ii) COMPLETE one-edit neighbourhoods (every deletion,
replacement and insertion over a 40-character alphabet, up to ten Unicode look-alikes of every character (other
scripts' digits, full-width forms, case-folding specials), every field drop / duplicate / adjacent swap) of seed
vectors; (iii) coverage-guided fuzzing (atheris) in the thorough tier, see vf/fuzz.
Oracle: the independent reference acceptor vf.ref.classify.
"""
from __future__ import unicode_literals

import random

from .. import gen, obs, ref, runner, spec
from ..runner import failure

PID = "C04"


def check_accept(inp):
    ver, s = inp["ver"], inp["s"]
    exp, prefix, pairs = ref.classify(ver, s)
    kind, val = obs.construct(ver, s)
    if kind != exp:
        note = None
        if kind.startswith("foreign") or kind.startswith("outside"):
            note = "exception from outside the CVSSError hierarchy: %r" % (val,)
        elif kind != "ok":
            note = "raised %s: %s" % (type(val).__name__, str(val)[:120])
        return [failure(exp, kind, note=note)]
    if kind == "ok":
        # the object must hold exactly the metrics the reference parser extracted
        clean = val.clean_vector()
        want = ref.canonical(ver, prefix, dict(pairs))
        if not clean.startswith(prefix):
            return [failure(want, clean, note="clean_vector() prefix")]
        got_fields = sorted(f for f in clean[len(prefix):].split("/") if f)
        want_fields = sorted(f for f in want[len(prefix):].split("/") if f)
        if got_fields != want_fields:
            return [failure(want_fields, got_fields, note="accepted object does not hold the metrics of the input")]
    if inp.get("plain_subclass", True) and len(s) < 400:
        # the same characters as an instance of a str subclass that adds and overrides nothing: a Python str value like any other
        kind2, val2 = obs.construct(ver, obs.PlainStr(s))
        if kind2 != kind:
            return [failure(kind, kind2, note="the same string as an instance of 'class PlainStr(str): __slots__ = ()'")]
    return []


CHECKS = {"accept": check_accept}


def one_edit_ball(s, ver):
    """every string one edit away from s (characters) and one field operation away"""
    out = []
    A = gen.EDIT_ALPHABET
    for i in range(len(s)):
        out.append(s[:i] + s[i + 1:])
        for c in A:
            if c != s[i]:
                out.append(s[:i] + c + s[i + 1:])
    for i in range(len(s) + 1):
        for c in A:
            out.append(s[:i] + c + s[i:])
    for i, ch in enumerate(s):                                        # every character in four common encodings of it
        for e in gen.encodings(ch)[:4]:
            out.append(s[:i] + e + s[i + 1:])
    for ch in ":/":                                                   # ... and all separators encoded at once
        for e in gen.encodings(ch):
            out.append(s.replace(ch, e))
    for d in gen.DECORATIONS:                                         # real-world decorations around the whole vector
        out.append(d % s)
    fs0 = s.split("/")
    for k in (161, 1200):                                             # the same near-misses, but LONG
        out.extend([s + "/" * k, "/" * k + s, s.replace("/", "/" * k, 1), s + " " * k, s + ("/" + fs0[-1]) * (k // 4), s + "A" * k,
                    "/".join(fs0[:-1] + [fs0[-1] + fs0[-1][-1] * k]), "/".join(fs0 + ["ZZ:Q"] * (k // 5))])
    conf = gen.confusables()
    for i, ch in enumerate(s):                                        # every Unicode look-alike of every character
        for c in conf.get(ch, ())[:10]:
            out.append(s[:i] + c + s[i + 1:])
    fs = s.split("/")
    for j in range(len(fs)):
        out.append("/".join(fs[:j] + fs[j + 1:]))                    # drop
        for k in range(len(fs) + 1):
            if k in (j, j + 1) or k == 0 or k == len(fs):
                out.append("/".join(fs[:k] + [fs[j]] + fs[k:]))       # duplicate
        if j + 1 < len(fs):
            t = list(fs)
            t[j], t[j + 1] = t[j + 1], t[j]
            out.append("/".join(t))                                   # adjacent swap
    return out


def ball_work(shard, n_seeds, seed):
    part = runner.Part(PID)
    rng = random.Random(runner.mix(seed, 4, shard))
    for ver in spec.VKEYS:
        for i in range(n_seeds):
            kind = (i + shard) % 3
            if kind == 0:
                s = gen.rng_vector(rng, ver, p_opt=0.0, shuffle=False)      # shortest, base only
            elif kind == 1:
                s = gen.rng_vector(rng, ver, p_opt=1.0, shuffle=False)      # longest, all metrics
            else:
                s = gen.rng_vector(rng, ver, p_opt=0.4, shuffle=True)
            ball = one_edit_ball(s, ver)
            nt = 0
            for t in ball:
                inp = {"ver": ver, "s": t}
                exp = ref.classify(ver, t)[0]
                part.classes["ball:v%s:%s" % (ver, exp)] += 1
                part.check("accept", check_accept, inp)
                if exp != ref.OK:
                    nt += 1
            part.evaluations += len(ball)
            part.nontrivial_count += nt      # strings of one ball are distinct up to coincidences; counted per string
            if len(part.samples) < 2 and shard == 0:
                part.samples.append({"ver": ver, "seed_vector": s, "ball_size": len(ball), "member": ball[len(ball) // 3]})
    return part


def accepted_outside_grammar(shard, n_seeds, seed, salt):
    """
    strings of complete one-edit neighbourhoods that the constructor ACCEPTS although the reference grammar does not
    (none on a tree where C04 holds).  C08 and C10 quantify over accepted vectors and feed these to their checks.
    -> list of (ver, string), number of strings tried
    """
    rng = random.Random(runner.mix(seed, salt, shard))
    out, tried = [], 0
    for ver in spec.VKEYS:
        for i in range(n_seeds):
            s = gen.rng_vector(rng, ver, p_opt=(0.0, 1.0, 0.4)[(i + shard) % 3], shuffle=((i + shard) % 3 == 2))
            for t in one_edit_ball(s, ver):
                tried += 1
                if ref.classify(ver, t)[0] != ref.OK and obs.construct(ver, t)[0] == "ok":
                    out.append((ver, t))
    return out, tried


def hyp_part(n_examples, shard):
    from hypothesis import given, strategies as st
    part = runner.Part(PID)

    @st.composite
    def case(draw):
        ver = draw(gen.version_key())
        k = draw(st.integers(0, 9))
        if k <= 1:
            return ver, draw(gen.valid(ver)), "valid"
        if k <= 7:
            s, ops = draw(gen.mutated(ver))
            return ver, s, "mut:" + ops[0]
        if k == 8:
            return ver, draw(st.text(max_size=40)), "text"
        other = draw(gen.version_key())
        return ver, draw(gen.valid(other)), "cross-version" if other != ver else "valid"

    @runner.seeded(4, shard)
    @runner.hyp_settings(n_examples)
    @given(case())
    def t(c):
        ver, s, how = c
        exp = ref.classify(ver, s)[0]
        nontrivial = exp != ref.OK or (exp == ref.OK and s != ref.canonical(ver, *_pp(ver, s)))
        part.count({"ver": ver, "s": s, "expected": exp}, nontrivial=nontrivial,
                   classes=("v%s:%s" % (ver, exp), how))
        part.check("accept", check_accept, {"ver": ver, "s": s}, hyp=True)
    runner.run_hyp(part, t, "C04.hyp")
    return part


def _pp(ver, s):
    p, m = ref.parse(ver, s)
    return p, m


def run(tier, t0):
    part = runner.Part(PID)
    part.merge(runner.hyp_shards("vf.props.c04", "hyp_part", 20000 if tier == "quick" else 200000))
    seeds = 2 if tier == "quick" else 12
    for p in runner.parallel("vf.props.c04", "ball_work", [(s, seeds, runner.SEED) for s in range(runner.NPROC)]):
        part.merge(p)
    from ..fuzz import driver
    fuzz_note = driver.campaign(part, "accept", runs=240000 if tier == "quick" else 2000000)
    rule = ("strings from: valid vectors (any spelling), 1..3 stacked mutation operators (char insert/delete/replace, "
            "field drop/duplicate/swap/transplant/empty, mandatory-field drop, prefix surgery, case, foreign values), "
            "cross-version vectors, arbitrary text; plus complete one-edit neighbourhoods of seed vectors (shortest, "
            "longest, shuffled) per version; expected verdict from the reference acceptor, never from the way a string "
            "was built. non-trivial = string that is not accepted, or accepted but not in canonical spelling; distinct "
            "by 64-bit hash for Hypothesis cases, ball members counted per string")
    required = ["v%s:%s" % (v, k) for v in spec.VKEYS for k in (ref.OK, ref.MALFORMED, ref.MANDATORY)]
    required += ["ball:v%s:%s" % (v, k) for v in spec.VKEYS for k in (ref.OK, ref.MALFORMED, ref.MANDATORY)]
    required += ["mut:" + o for o in gen.OPS] + ["text", "valid", "cross-version", "atheris-execs:accept"]
    return runner.finish(
        part, tier, t0, rule,
        ["reference acceptor vf/ref.py with metric tables typed from the specifications (value sets are frozensets)",
         "only str inputs (the statement quantifies over Python str values)", fuzz_note],
        required=required)
