# -*- coding: utf-8 -*-
"""
C10 - as_json() output validates against the official FIRST JSON schema of its version, for every
accepted vector and every (sort, minimal) combination.  Oracle: jsonschema on the pinned schemas,
numbers parsed as Decimal (exact multipleOf).

Two known findings (v4 baseSeverity case, v4 vectorString echo of a non-canonically ordered input) are
excluded by construction: the document is validated raw, the two known deviations are recognised by
their exact shape, normalised, and the normalised document must validate completely - so anything else
behind them is still reported.
"""
from __future__ import unicode_literals

import json
import re
from decimal import Decimal

from .. import gen, obs, ref, runner, spec
from ..runner import failure

PID = "C10"
_VAL = {}
SEVS = ("NONE", "LOW", "MEDIUM", "HIGH", "CRITICAL")


def validator(sver):
    import jsonschema
    if sver not in _VAL:
        sch = spec.schema(sver)
        cls = jsonschema.validators.validator_for(sch)
        cls.check_schema(sch)
        _VAL[sver] = cls(sch)
    return _VAL[sver]


def schema_version(ver, prefix):
    return {"2": "2.0", "4": "4.0"}.get(ver) or ("3.0" if prefix == "CVSS:3.0/" else "3.1")


def errors_of(sver, doc):
    inst = json.loads(json.dumps(doc), parse_float=Decimal)
    out = []
    for e in validator(sver).iter_errors(inst):
        path = "/".join(str(p) for p in e.absolute_path) or "<root>"
        out.append(("%s:%s:%s" % (sver, path, e.validator), e.message[:160]))
    return out


def check_schema(inp):
    ver, s = inp["ver"], inp["s"]
    prefix, m = ref.parse(ver, s)
    sver = schema_version(ver, prefix)
    o = obs.classes()[ver](s)
    fails = []
    pairs = inp.get("pairs") or [[False, False], [False, True], [True, False], [True, True]]
    if not inp.get("pairs"):
        # in which order the four documents are asked for, and which other accessors were called before, is a function of the case
        h = runner.h64(s)
        pairs = pairs[h % 4:] + pairs[:h % 4]
        from . import c18
        A = c18.accessors(ver)
        names = sorted(n for n in A if not n.startswith("json"))
        for i in range((h >> 4) % 3):
            A[names[(h >> (8 + 8 * i)) % len(names)]](o)
    for sort, minimal in pairs:
        if True:
            doc = o.as_json(sort=sort, minimal=minimal)
            try:
                doc = json.loads(json.dumps(doc))      # the JSON round trip of the statement
            except (TypeError, ValueError) as e:
                fails.append(failure("JSON-serialisable dict", "%s: %s" % (type(e).__name__, e)))
                continue
            errs = errors_of(sver, doc)
            if not errs:
                continue
            known = []
            if ver == "4":
                norm = dict(doc)
                sev = norm.get("baseSeverity")
                if isinstance(sev, type("")) and sev != sev.upper() and sev.upper() in SEVS:
                    norm["baseSeverity"] = sev.upper()
                    known.append(failure("upper-case severity constant", sev, key="v4.baseSeverity.case"))
                vs = norm.get("vectorString")
                rx = re.compile(spec.vector_pattern("4.0"))
                if vs == s and not rx.fullmatch(s):
                    norm["vectorString"] = ref.build(prefix, m, [k for k in spec.VERS["4"].order if k in m])
                    known.append(failure("vectorString in official order", vs, key="v4.vectorString.echo"))
                if known:
                    errs2 = errors_of(sver, norm)
                    if len(errs2) < len(errs):
                        fails.extend(known)       # recognised as the listed findings (filtered by the runner)
                        errs = errs2
            for sig, msg in errs:
                fails.append(failure("valid against cvss-v%s.json" % sver, msg,
                                     note="sort=%s minimal=%s %s" % (sort, minimal, sig)))
    # objects also come into being through from_rh_vector(): their documents must validate as well
    try:
        from .. import scorecheck
        base = scorecheck.as_floats(scorecheck.expected_scores(ver, s))[0]
        orh = obs.classes()[ver].from_rh_vector("%.1f/%s" % (base, s))
        doc = json.loads(json.dumps(orh.as_json()))
        errs = errors_of(sver, doc)
        if ver == "4":     # the two listed v4 findings apply to these documents in the same way
            errs = [e for e in errs if not (e[0].endswith("vectorString:pattern") and doc.get("vectorString") == s)
                    and not (e[0].endswith(":anyOf") and isinstance(doc.get("baseSeverity"), type("")) and doc["baseSeverity"] != doc["baseSeverity"].upper())]
        for sig, msg in errs:
            fails.append(failure("valid against cvss-v%s.json" % sver, msg, note="object built by from_rh_vector(); %s" % sig))
    except BaseException as e:  # noqa
        if not isinstance(e, (KeyboardInterrupt, SystemExit)):
            fails.append(failure("from_rh_vector(<base score>/<vector>).as_json() works", "%s: %s" % (type(e).__name__, e)))
    # de-duplicate identical messages over the four option pairs
    seen, out = set(), []
    for f in fails:
        k = (f.get("key"), f["observed"])
        if k not in seen:
            seen.add(k)
            out.append(f)
    return out


def check_schema_accepted(inp):
    """
    the statement quantifies over ACCEPTED vectors: whatever string the constructor accepts (grammar or not - that is
    C04's business) must serialise to schema-valid JSON.  Strings the constructor rejects are outside the domain.
    """
    ver, s = inp["ver"], inp["s"]
    if ref.classify(ver, s)[0] == ref.OK:
        return check_schema(inp)
    k, o = obs.construct(ver, s)
    if k != "ok":
        return []
    inp["_accepted"] = True
    fails = []
    for sort in (False, True):
        for minimal in (False, True):
            try:
                doc = json.loads(json.dumps(o.as_json(sort=sort, minimal=minimal)))
            except BaseException as e:  # noqa
                fails.append(failure("JSON-serialisable dict", "%s: %s" % (type(e).__name__, e), note="accepted string outside the grammar"))
                continue
            sver = {"2": "2.0", "4": "4.0"}.get(ver) or (doc.get("version") if doc.get("version") in ("3.0", "3.1") else "3.1")
            for sig, msg in errors_of(sver, doc):
                fails.append(failure("valid against cvss-v%s.json" % sver, msg, note="the constructor accepted %r (not a grammar vector); %s" % (s, sig)))
    seen, out = set(), []
    for f in fails:
        if f["observed"] not in seen:
            seen.add(f["observed"])
            out.append(f)
    return out


CHECKS = {"schema": check_schema, "schema_accepted": check_schema_accepted}


def covering():
    """for every version/minor, every metric and value: one vector carrying it (official order)"""
    out = []
    for ver in spec.VKEYS:
        V = spec.VERS[ver]
        for prefix in V.prefixes:
            base = dict((k, V.table[k][0]) for k in V.mandatory)
            for k in V.order:
                for v in V.table[k]:
                    d = dict(base)
                    d[k] = v
                    out.append((ver, ref.build(prefix, d, [x for x in V.order if x in d])))
            for i in range(max(len(v) for v in V.table.values())):
                d = dict((k, V.table[k][min(i, len(V.table[k]) - 1)]) for k in V.order)
                out.append((ver, ref.build(prefix, d, list(V.order))))
    return out


def sweep_work(shard, n, seed):
    """seeded random classes of the score quotients (C09's sampler, incl. the thin low-score corners), one
    (sort, minimal) pair per document in rotation: cheap breadth behind the Hypothesis cases"""
    import random
    from . import c09
    part = runner.Part(PID)
    rng = random.Random(runner.mix(seed, 10, shard))
    pairs = [[False, False], [False, True], [True, False], [True, True]]
    k = 0
    for ver in spec.VKEYS:
        for _ in range(n):
            v = c09._rand_class(rng, ver)
            k += 1
            inp = {"ver": ver, "s": v, "pairs": [pairs[k % 4]]}
            part.check("schema", check_schema, inp)
            part.evaluations += 1
            part.nontrivial_count += 1
            part.classes["sweep:v" + ver] += 1
    return part


def ball_part(shard, n_seeds, seed):
    """complete one-edit neighbourhoods: every member the constructor accepts outside the grammar goes through the check"""
    from . import c04
    part = runner.Part(PID)
    found, tried = c04.accepted_outside_grammar(shard, n_seeds, seed, 10)
    part.count(None, classes=("one-edit-ball-member-tried",), n=tried)
    for ver, t in found[:200]:
        part.classes["ball-member-accepted-outside-grammar"] += 1
        part.check("schema_accepted", check_schema_accepted, {"ver": ver, "s": t})
    return part


def hyp_part(n_examples, shard):
    from hypothesis import given, strategies as st
    part = runner.Part(PID)

    @runner.seeded(10, 100 + shard)
    @runner.hyp_settings(max(1, n_examples // 2))
    @given(gen.version_key().flatmap(lambda v: st.tuples(st.just(v), gen.mutated(v, max_edits=2))))
    def t2(c):
        ver, (s, ops) = c
        inp = {"ver": ver, "s": s}
        part.check("schema_accepted", check_schema_accepted, inp, hyp=True)
        acc = inp.pop("_accepted", False)
        part.count(inp, nontrivial=acc, classes=("mutant", "mutant-accepted-by-library" if acc else "mutant-rejected-or-grammar"))
    runner.run_hyp(part, t2, "C10.hyp.mutants")

    @runner.seeded(10, shard)
    @runner.hyp_settings(n_examples)
    @given(gen.version_key().flatmap(lambda v: st.tuples(st.just(v), gen.valid_parts(v))))
    def t(c):
        ver, (prefix, d, order) = c
        V = spec.VERS[ver]
        s = ref.build(prefix, d, order)
        nt = any(d.get(k, V.nd) != V.nd for k in V.optional)
        official = order == [k for k in V.order if k in d]
        part.count({"ver": ver, "s": s}, nontrivial=nt,
                   classes=("v" + ver + (prefix[5:8] if ver == "3" else ""), "official-order" if official else "other-order"))
        part.check("schema", check_schema, {"ver": ver, "s": s}, hyp=True)
    runner.run_hyp(part, t, "C10.hyp")
    return part


def run(tier, t0):
    part = runner.Part(PID)
    for ver, s in covering():
        part.count(None, classes=("covering",))
        part.check("schema", check_schema, {"ver": ver, "s": s})
    part.merge(runner.hyp_shards("vf.props.c10", "hyp_part", 4800 if tier == "quick" else 160000))
    for p in runner.parallel("vf.props.c10", "ball_part", [(sh, 1 if tier == "quick" else 12, runner.SEED) for sh in range(runner.NPROC)]):
        part.merge(p)
    for p in runner.parallel("vf.props.c10", "sweep_work", [(sh, 2000 if tier == "quick" else 40000, runner.SEED) for sh in range(runner.NPROC)]):
        part.merge(p)
    rule = ("accepted vectors of every version (uniform presence of optional metrics, official order half of the time) x "
            "all four (sort, minimal) combinations inside each case; covering set: every (metric, value) of every version "
            "and minor; sweep: seeded random classes of the v2/v3/v4 score quotients in random spellings (C09's sampler), one "
            "option pair per document in rotation; 1-2-edit mutants: whatever the constructor accepts must validate too. non-trivial = vector with at least one optional metric defined; distinct "
            "by hash (sweep classes counted). Each Hypothesis/covering case validates 4 documents.")
    return runner.finish(part, tier, t0, rule,
                         ["pinned copies of FIRST's schemas (vf/spec_data/schemas); draft chosen from $schema; numbers parsed as Decimal so multipleOf 0.1 is exact",
                          "the schemas allow additional properties: library v4 field names that differ from the schema's are not constrained by it"],
                         required=("covering", "v2", "v33.0", "v33.1", "v4", "official-order", "other-order", "sweep:v2", "sweep:v3", "sweep:v4", "mutant", "one-edit-ball-member-tried"))
