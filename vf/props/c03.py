# -*- coding: utf-8 -*-
"""
C03 - CVSS v2 scores equal the v2 guide equations (exact Fraction oracle), None exactly for undefined
groups.  Exhaustive over the quotient 729 x 49 x 541 (thorough) / stratified sample (quick), one
seeded random spelling per class, plus a Hypothesis test over the whole spelling space (shrinks).
"""
from __future__ import unicode_literals

import itertools
import random

from .. import gen, oracles, ref, runner, scorecheck, spec

PID = "C03"
CHECKS = {"score2": scorecheck.check_score("2")}

BASES = list(itertools.product("LAN", "HML", "MSN", "NPC", "NPC", "NPC"))
TEMP = [None] + list(itertools.product(("U", "POC", "F", "H"), ("OF", "TF", "W", "U"), ("UC", "UR", "C")))
ENV = [None] + list(itertools.product(("N", "L", "LM", "MH", "H"), ("N", "L", "M", "H"), "LMH", "LMH", "LMH"))
BK = ("AV", "AC", "Au", "C", "I", "A")


def _eff(b, t, e):
    d = dict(zip(BK, b))
    d.update(zip(("E", "RL", "RC"), t or ("ND",) * 3))
    d.update(zip(("CDP", "TD", "CR", "IR", "AR"), e or ("ND",) * 5))
    return d


def work(bi, tier, seed):
    # every second unit is computed in a fresh non-main thread: a score must not depend on thread-local state
    if bi % 2:
        return runner.in_thread(_work, bi, tier, seed)
    return _work(bi, tier, seed)


def _work(bi, tier, seed):
    """all (thorough) or sampled (quick) classes above base assignment number bi"""
    import cvss
    CVSS2 = cvss.CVSS2
    part = runner.Part(PID)
    rng = random.Random(runner.mix(seed, 3, bi))
    b = BASES[bi]
    wf = scorecheck.well_formed_float
    n = nt = 0
    cls = part.classes
    if tier == "thorough":
        pairs = ((t, e) for t in TEMP for e in ENV)
    else:
        # every temporal class with an undefined environmental group, every environmental class once
        # with a random temporal class, and random pairs
        pl = [(t, None) for t in TEMP] + [(rng.choice(TEMP), e) for e in ENV]
        pl += [(rng.choice(TEMP), rng.choice(ENV)) for _ in range(800)]
        pairs = iter(pl)
    for t, e in pairs:
        eff = _eff(b, t, e)
        exp = oracles.score2(eff)
        expf = tuple(None if x is None else float(x) for x in exp)
        reps = 2 if (n & 7) == 0 else 1           # every 8th class: two independent spellings
        for _ in range(reps):
            v = gen.realise2(rng, b, t, e)
            try:
                got = CVSS2(v).scores()
                ok = got == expf and all(g is None or wf(g) for g in got)
            except Exception:
                ok = False
            n += 1
            if not ok:
                part.bad.append(v)
        nontrivial = (exp[1] is not None and exp[1] != exp[0]) or (exp[2] is not None and exp[2] != exp[0])
        if nontrivial:
            nt += 1
        cls["pattern:%s%s" % ("T" if t else "-", "E" if e else "-")] += 1
        if e is not None and eff["TD"] == "N":
            cls["TD:N"] += 1
        if exp[0] == 0:
            cls["base=0"] += 1
        if nontrivial and len(part.samples) < 1 and bi % 73 == 0:
            part.samples.append({"vector": v, "scores": list(expf)})
    part.evaluations = n
    part.nontrivial_count = nt
    return part


def hyp_part(n_examples, shard):
    from hypothesis import given
    part = runner.Part(PID)
    fn = CHECKS["score2"]

    @runner.seeded(3, shard)
    @runner.hyp_settings(n_examples)
    @given(gen.valid("2"))
    def t(v):
        part.count(None, classes=("hypothesis",))
        part.check("score2", fn, {"vector": v}, hyp=True)
    runner.run_hyp(part, t, "C03.hyp")
    return part


def run(tier, t0):
    n, problems = oracles.selftest(("2",))
    if problems:
        raise runner.HarnessError("oracle self-test failed: %r" % problems[:3])
    part = runner.Part(PID)
    for p in runner.parallel("vf.props.c03", "work", [(i, tier, runner.SEED) for i in range(len(BASES))], chunksize=4):
        part.merge(p)
    scorecheck.record_bad_vectors(part, "2", "score2", CHECKS["score2"], part.bad)
    part.merge(runner.hyp_shards("vf.props.c03", "hyp_part", 4800 if tier == "quick" else 64000))
    rule = ("quotient classes (base assignment x temporal class x environmental class, incl. the "
            "all-undefined groups), one seeded random spelling per class (ND written/omitted/explicit "
            "equivalent, shuffled order), every 8th class twice; non-trivial = class whose defined temporal "
            "or environmental score differs from the base score; classes are distinct by construction")
    return runner.finish(
        part, tier, t0, rule,
        ["exact Fraction oracle typed from the v2 guide, self-tested against %d official vectors" % n,
         "fibre invariance above a class is sampled (one or two spellings per class); see C05/C06"],
        exhaustive=(tier == "thorough"),
        required=("pattern:--", "pattern:T-", "pattern:-E", "pattern:TE", "TD:N", "base=0", "hypothesis"),
        extra={"quotient_size": len(BASES) * len(TEMP) * len(ENV)})
