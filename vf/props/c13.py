# -*- coding: utf-8 -*-
"""
C13 - parse_cvss_from_text() is total, sound, complete for delimited v2/v3 vectors, duplicate-free.
"""
from __future__ import unicode_literals

import re

from .. import gen, ref, runner, spec
from ..runner import failure

PID = "C13"
VECTORISH = re.compile(r"[A-Za-z:/]")


def _delimited_occurrences(text, vec):
    """start indices at which vec occurs delimited on both sides by characters outside [A-Za-z:/]"""
    out = []
    i = text.find(vec)
    while i != -1:
        before = text[i - 1] if i > 0 else ""
        after = text[i + len(vec)] if i + len(vec) < len(text) else ""
        if not (before and VECTORISH.match(before)) and not (after and VECTORISH.match(after)):
            out.append(i)
        i = text.find(vec, i + 1)
    return out


def check_text(inp):
    """inp: {"text": str, "planted": [[ver, vector], ...]} planted = valid v2/v3 vectors the generator inserted"""
    import cvss
    from cvss.parser import parse_cvss_from_text
    text = inp["text"]
    try:
        res = parse_cvss_from_text(text)
    except BaseException as e:  # noqa
        return [failure("no exception for any text", "%s: %s" % (type(e).__name__, str(e)[:200]))]
    fails = []
    keys = []
    for o in res:
        if type(o) is cvss.CVSS2:
            ver = "2"
        elif type(o) is cvss.CVSS3:
            ver = "3"
        else:
            fails.append(failure("CVSS2 / CVSS3 objects", repr(type(o))))
            continue
        v = getattr(o, "vector", None)
        if not isinstance(v, type("")) or v not in text:
            fails.append(failure("object built from a substring of the text", repr(v)))
            continue
        verdict, prefix, pairs = ref.classify(ver, v)
        if verdict != ref.OK:
            fails.append(failure("substring that is a valid v%s vector" % ver, v))
            continue
        keys.append(ref.model_key(ver, prefix, dict(pairs)))
    if len(set(keys)) != len(keys):
        fails.append(failure("no two returned objects are equal", "duplicates: %d objects, %d distinct" % (len(keys), len(set(keys)))))
    pool = res if len(res) <= 120 else res[:60] + res[-60:]        # pairwise == is quadratic; the model keys above cover everything
    for i, a in enumerate(pool):
        for b in pool[i + 1:]:
            if a == b:
                fails.append(failure("pairwise different objects", "%r == %r" % (a.vector, b.vector)))
    # completeness: every valid v2/v3 vector occurring delimited must be returned
    have = set(keys)
    for ver, vec in inp.get("planted", ()):
        verdict, prefix, pairs = ref.classify(ver, vec)
        if verdict != ref.OK or ver not in ("2", "3"):
            continue
        if _delimited_occurrences(text, vec) and ref.model_key(ver, prefix, dict(pairs)) not in have:
            fails.append(failure("delimited valid vector %r is returned" % vec, sorted(o.vector for o in res)))
    return fails


CHECKS = {"text": check_text}

FILLER_OUT = " \n\t.,;()[]{}0123456789-_=+!?\"'<>|&%#@*é☃ж"     # outside [A-Za-z:/]
FILLER_IN = "abcXYZ:/AVCNLH"                                     # inside the class (glue)


# characters OUTSIDE [A-Za-z:/] that Unicode-aware regex features (IGNORECASE, \\w, \\b, \\d) or case mapping relate to
# ASCII letters/digits: Kelvin sign, long s, dotless i, capital I with dot, full-width letter/colon/slash, other scripts'
# digits and letters (word characters), ideographs, combining mark, no-break space
SPECIAL_DELIMS = ("\u212a", "\u017f", "\u0131", "\u0130", "\uff21", "\uff1a", "\uff0f", "\u0661", "\u00df", "\u03a9",
                  "\u57fa", "\u0301", "\u00a0", "\u2028", "_", "-", "0", "\U0001d400", "\U00011f04",
                  # ENCODED forms of vector characters (a decoder in front of the scan would glue them to the vector)
                  "&#58;", "&#47;", "&#x2F;", "&colon;", "&sol;", "&amp;", "&#65;", "&#x41;", "&#58", "%3A", "%2F", "%41", "\\x2f", "\\u002f",
                  "\\/", "=3A", "+", "\x1b[0m", "\x08", "\x00")


def special_delimiter_cases():
    """deterministic: every special delimiter before / after / on both sides of a v2 and a v3 vector"""
    vecs = [("2", "AV:N/AC:L/Au:N/C:C/I:C/A:C"), ("3", "CVSS:3.1/AV:N/AC:L/PR:N/UI:N/S:U/C:H/I:H/A:H"),
            ("3", "CVSS:3.0/AV:L/AC:H/PR:L/UI:R/S:C/C:L/I:N/A:N/E:P/MAV:A")]
    out = []
    # tokens of the grammar itself and their fragments (a prefix without its slash, half a field ...), and every short constant of
    # the source tree with its head and tail cut off: what a rewritten candidate pattern may glue to, or cut from, a neighbour
    frag = set(["CVSS:3.1", "CVSS:3.0", "CVSS:3.", "CVSS:3", "CVSS:", "CVSS", "CVSS:3.1/", "CVSS:3.0/", "CVSS:4.0/", "CVSS:4.0", "CVSS:2.0/", "CVSS:3.9",
                "3.1", "3.1/", ".1/", "1/", "AV:N", "AV:N/", "/AV:N", "A:N", "/A:N", "A:", "AV", "/E:F", "E:F/", "Au:N/", "/MAV:X", ":N", "N/"])
    for c in gen.tree_constants():
        if 2 <= len(c) <= 12 and ("CVSS" in c or ":" in c or "/" in c):
            frag.update((c, c[:-1], c[1:]))
    for d in SPECIAL_DELIMS + tuple(sorted(frag)) + tuple(c for lst in (gen.confusables().get(a, ()) for a in "AaKkSsIi:/3") for c in lst):
        for ver, v in vecs:
            for text in (d + v, v + d, d + v + d, "see " + v + d + " and", "x " + d + v + " y"):
                out.append({"text": text, "planted": [[ver, v]]})
    return out


def long_cases():
    """deterministic: the longest possible v2 / v3.0 / v3.1 vectors (every metric written), alone, after 300,000 characters
    of filler, repeated 400 times in other spellings, and 3,000 different vectors in one text"""
    import random
    out = []
    r = random.Random(13)
    longest = []
    for ver in ("2", "3"):
        V = spec.VERS[ver]
        for prefix in V.prefixes:
            d = dict((m, [x for x in V.table[m] if x != V.nd][-1]) for m in V.order)
            longest.append((ver, ref.build(prefix, d, list(V.order))))
    for ver, v in longest:
        out.append({"text": v, "planted": [[ver, v]]})
        out.append({"text": ("lorem ipsum 123 " * 20000) + v + " dolor", "planted": [[ver, v]]})
        out.append({"text": "(" + v + ")" + "," * 70000 + "\n" + v, "planted": [[ver, v]]})
        prefix, m = ref.parse(ver, v)
        sp = []
        for _ in range(400):
            ks = list(m)
            r.shuffle(ks)
            sp.append(ref.build(prefix, m, ks))
        out.append({"text": " ; ".join(sp), "planted": [[ver, x] for x in sp[:5]]})
    # the longest STRINGS: every metric written with its longest value name (Not Defined spelled out where that is longest):
    # exactly at whatever length bound somebody derives from the tables
    for ver in ("2", "3"):
        V = spec.VERS[ver]
        for prefix in V.prefixes:
            for pick in (lambda vals: max(vals, key=len), lambda vals: max(reversed(vals), key=len)):
                d = dict((m, pick(list(V.table[m]))) for m in V.order)
                v = ref.build(prefix, d, list(V.order))
                if ref.classify(ver, v)[0] == ref.OK:
                    out.append({"text": v, "planted": [[ver, v]]})
                    out.append({"text": "score: " + v + ".", "planted": [[ver, v]]})
                    out.append({"text": v + "\n" + v[::-1], "planted": [[ver, v]]})
    # vectors that straddle, end at, start at and lie beyond power-of-two offsets of the text (buffer and cap sizes): 4 KiB ... 16 Mi
    v2v, v3v = "AV:N/AC:L/Au:N/C:P/I:P/A:P/E:POC/RL:OF/RC:UR/CDP:LM/TD:ND/CR:M/IR:ND/AR:H", "CVSS:3.1/AV:N/AC:L/PR:N/UI:N/S:U/C:H/I:H/A:H/E:P/MC:L/MI:N/MA:N"
    for k in (12, 16, 20, 24):
        for ver, v in (("2", v2v), ("3", v3v)):
            for start in ((1 << k) - len(v) // 2, (1 << k) - len(v), (1 << k) - 4, (1 << k) + 1):
                text = "." * start + v + " then " + v[:-1] + ("H" if ver == "3" else "L") + " end"
                other = v[:-1] + ("H" if ver == "3" else "L")
                out.append({"text": text, "planted": [[ver, v], [ver, other]]})
    many = [gen.rng_vector(r, r.choice("23")) for _ in range(3000)]
    out.append({"text": "\n".join(many), "planted": [[("3" if x.startswith("CVSS") else "2"), x] for x in many[::100]]})
    return out


def text_strategy():
    from hypothesis import strategies as st

    @st.composite
    def s(draw):
        n = draw(st.integers(1, 5))
        chunks = []
        planted = []
        kinds = set()
        earlier = []
        for _ in range(n):
            kind = draw(st.sampled_from(("filler-out", "filler-in", "unicode", "valid23", "valid23", "valid4", "near", "repeat",
                                         "respelled-repeat", "glued", "minor", "minor-twin", "prefix-pair", "min-v2", "encoded")))
            if kind == "filler-out":
                chunks.append(draw(st.text(alphabet=FILLER_OUT, min_size=1, max_size=8)))
            elif kind == "filler-in":
                chunks.append(draw(st.text(alphabet=FILLER_IN, min_size=1, max_size=30)))
            elif kind == "unicode":
                chunks.append(draw(st.text(max_size=10)))
            elif kind in ("valid23", "min-v2"):
                ver = "2" if kind == "min-v2" else draw(st.sampled_from(("2", "3")))
                if kind == "min-v2":
                    V = spec.VERS["2"]
                    d = dict((m, draw(st.sampled_from(V.table[m]))) for m in V.mandatory)
                    v = ref.build("", d, gen.ordered(set(d), V.order, draw(gen.order_seed())))
                else:
                    v = draw(gen.valid(ver))
                sep_l = draw(st.sampled_from((" ", "\n", "(", "", ".", "3", "é") + SPECIAL_DELIMS))
                sep_r = draw(st.sampled_from((" ", "\n", ")", "", ".", ",", "9", "☃") + SPECIAL_DELIMS))
                chunks.append(sep_l + v + sep_r)
                planted.append([ver, v])
                earlier.append((ver, v))
            elif kind == "valid4":
                chunks.append(" " + draw(gen.valid("4")) + " ")
            elif kind == "near":
                ver = draw(st.sampled_from(("2", "3")))
                bad, ops = draw(gen.mutated(ver, max_edits=2))
                chunks.append(" " + bad + " ")
                if ref.classify(ver, bad)[0] == ref.OK:
                    planted.append([ver, bad])
            elif kind in ("repeat", "respelled-repeat") and earlier:
                ver, v = draw(st.sampled_from(earlier))
                if kind == "respelled-repeat":
                    prefix, m = ref.parse(ver, v)
                    v = ref.build(prefix, m, gen.ordered(set(m), spec.VERS[ver].order, draw(gen.order_seed())))
                    planted.append([ver, v])
                chunks.append(" " + v + " ")
            elif kind == "glued":
                ver = draw(st.sampled_from(("2", "3")))
                v = draw(gen.valid(ver))
                glue = draw(st.text(alphabet=FILLER_IN, min_size=1, max_size=4))
                chunks.append(" " + (glue + v if draw(st.booleans()) else v + glue) + " ")
                planted.append([ver, v])       # completeness applies only if it ALSO occurs delimited
            elif kind == "encoded":
                ver = draw(st.sampled_from(("2", "3")))
                v = draw(gen.valid(ver))
                c = draw(st.sampled_from(":/"))
                chunks.append(" " + v.replace(c, draw(st.sampled_from(gen.encodings(c)))) + " ")
            elif kind == "prefix-pair":
                # a vector and, later in the text, the vector made of its first fields (its own base vector): one string is a textual
                # prefix of the other, text.find() of the short one hits inside the long one
                ver = draw(st.sampled_from(("2", "3")))
                V = spec.VERS[ver]
                prefix, d, _ = draw(gen.valid_parts(ver))
                full = ref.build(prefix, d, [k for k in V.order if k in d])
                nmand = len(V.mandatory)
                cut = draw(st.integers(nmand, max(nmand, len(d) - 1)))
                short = ref.build(prefix, d, [k for k in V.order if k in d][:cut])
                if ref.classify(ver, short)[0] == ref.OK and short != full:
                    a, b = (full, short) if draw(st.booleans()) else (short, full)
                    chunks.append(" " + a + draw(st.sampled_from((" (base: ", " ", "\n", "; "))) + b + ") ")
                    planted.append([ver, full])
                    planted.append([ver, short])
                else:
                    chunks.append(" " + full + " ")
                    planted.append([ver, full])
            elif kind == "minor-twin":
                # the same metric assignment under BOTH minor versions (other field order): two different vectors, both to be returned
                v = draw(gen.valid("3"))
                prefix, m = ref.parse("3", v)
                twin = ref.build("CVSS:3.1/" if prefix == "CVSS:3.0/" else "CVSS:3.0/", m, gen.ordered(set(m), spec.VERS["3"].order, draw(gen.order_seed())))
                chunks.append(" " + v + draw(st.sampled_from((" ", "\n", " vs. ", ", "))) + twin + " ")
                planted.append(["3", v])
                planted.append(["3", twin])
            elif kind == "minor":
                v = draw(gen.valid("3"))
                # an unsupported minor version, or a supported one in digits that are not ASCII / with leading zeros: the regular
                # expression's \d takes any of them, the constructor must not
                md = draw(st.sampled_from(("2", "3", "5", "9", "\u0660", "\u0661", "\uff10", "\uff11", "\u06f1", "\u0967", "\U0001d7d9", "\u00b9", "\u2460", "01", "00", "1\u0661", "10")))
                chunks.append(" " + v.replace("CVSS:3.0", "CVSS:3." + md).replace("CVSS:3.1", "CVSS:3." + md) + " ")
            else:
                chunks.append(" ")
            kinds.add(kind)
        return "".join(chunks), planted, sorted(kinds)
    return s()


def hyp_part(n_examples, shard):
    from hypothesis import given
    part = runner.Part(PID)

    @runner.seeded(13, shard)
    @runner.hyp_settings(n_examples)
    @given(text_strategy())
    def t(c):
        text, planted, kinds = c
        delimited = sum(1 for ver, v in planted if ref.classify(ver, v)[0] == ref.OK and _delimited_occurrences(text, v))
        tricky = any(k in kinds for k in ("near", "glued", "minor", "filler-in", "valid4"))
        classes = ["chunk:" + k for k in kinds]
        if delimited:
            classes.append("has-delimited-vector")
        if len(planted) > delimited:
            classes.append("has-undelimited-vector")
        if any(ver == "2" and len(v) == 26 for ver, v in planted):
            classes.append("26-char-v2")
        part.count({"text": text}, nontrivial=bool(planted and tricky), classes=classes)
        part.check("text", check_text, {"text": text, "planted": planted}, hyp=True)
    runner.run_hyp(part, t, "C13.hyp")
    return part


def run(tier, t0):
    part = runner.hyp_shards("vf.props.c13", "hyp_part", 6400 if tier == "quick" else 320000)
    for inp in long_cases():
        part.count(None, classes=("long-text",))
        part.nontrivial_count += 1
        part.check("text", check_text, inp)
    for inp in special_delimiter_cases():
        part.count(None, classes=("special-delimiter",))
        part.nontrivial_count += 1
        part.check("text", check_text, inp)
    from ..fuzz import driver
    fuzz_note = driver.campaign(part, "text", runs=160000 if tier == "quick" else 1500000)
    rule = ("texts = 1-5 chunks: filler outside / inside [A-Za-z:/], arbitrary Unicode, planted valid v2/v3 vectors (incl. "
            "minimal 26-character v2 vectors) between random delimiters, v4 vectors, near-valid vectors (<= 2 mutations), "
            "repeats of an earlier vector in the same or another spelling, vectors glued to vector-like characters, "
            "CVSS:3.x with unsupported minor; deterministic set: every 'special' delimiter (Kelvin sign, long s, dotless i, "
            "full-width forms, other scripts' digits/letters, ideographs, NBSP ...) before/after/around v2 and v3 vectors. non-trivial = text with a planted vector and a glued/near-valid/vector-like "
            "chunk; distinct by hash")
    return runner.finish(part, tier, t0, rule,
                         ["results compared as a set (order comes from a set and is unspecified)",
                          "completeness asserted only for planted vectors that occur delimited on both sides", fuzz_note],
                         required=["chunk:" + k for k in ("filler-out", "filler-in", "unicode", "valid23", "valid4", "near", "repeat", "respelled-repeat", "glued", "minor", "minor-twin", "prefix-pair", "min-v2", "encoded")]
                         + ["has-delimited-vector", "has-undelimited-vector", "26-char-v2", "atheris-execs:text", "special-delimiter", "long-text"])
