# -*- coding: utf-8 -*-
"""
C05 - outputs do not depend on field order or on spelling out Not Defined.
Metamorphic: accepted vector x (permutation, toggled subset of Not Defined optionals) -> all listed
observables identical, objects equal both ways, hashes equal.
"""
from __future__ import unicode_literals

from .. import gen, obs, ref, runner, spec
from ..runner import failure

PID = "C05"


def check_invariance(inp):
    ver, a, b = inp["ver"], inp["a"], inp["b"]
    pa, ma = ref.parse(ver, a)
    pb, mb = ref.parse(ver, b)
    if ref.model_key(ver, pa, ma) != ref.model_key(ver, pb, mb):
        raise runner.HarnessError("C05 pair is not a respelling: %r %r" % (a, b))
    ka, oa = obs.construct(ver, a)
    kb, ob = obs.construct(ver, b)
    if ka != "ok" or kb != "ok":
        return [failure("both spellings accepted", [ka, kb])]
    fails = []
    xa, xb = obs.observables(ver, oa), obs.observables(ver, ob)
    for k in sorted(xa):
        if xa[k] != xb[k]:
            fails.append(failure(xa[k], xb[k], note="%s differs between the two spellings" % k))
    if not (oa == ob) or not (ob == oa):
        fails.append(failure(True, False, note="objects built from the two spellings are not equal"))
    if oa != ob:
        fails.append(failure(False, True, note="!= is true for the two spellings"))
    return fails


def check_permutation_accepted(inp):
    """
    'for any ACCEPTED vector, permuting its fields ... leaves the outputs unchanged': whatever string the constructor
    accepts (inside the grammar or not - that is C04's business), every rotation and the reversal of its fields must be
    accepted too and give the same outputs.  Strings the constructor rejects are outside the domain.
    """
    import random
    ver, s = inp["ver"], inp["s"]
    V = spec.VERS[ver]
    prefix = next((p for p in V.prefixes if s.startswith(p)), None)
    if prefix is None:
        return []
    k, o = obs.construct(ver, s)
    if k != "ok":
        return []
    inp["_accepted"] = True
    base = obs.observables(ver, o)
    fields = s[len(prefix):].split("/")
    variants = [fields[::-1]] + [fields[i:] + fields[:i] for i in range(1, min(len(fields), 6))]
    r = random.Random(inp.get("oseed", 1))
    sh = list(fields)
    r.shuffle(sh)
    variants.append(sh)
    fails = []
    for f in variants:
        b = prefix + "/".join(f)
        kb, ob = obs.construct(ver, b)
        if kb != "ok":
            fails.append(failure("permutation %r of the accepted vector is accepted" % b, kb))
            break
        xb = obs.observables(ver, ob)
        bad = [key for key in sorted(base) if base[key] != xb[key]]
        if bad or not (o == ob):
            key = bad[0] if bad else "=="
            fails.append(failure(base.get(key), xb.get(key), note="%s differs between %r and its permutation %r" % (key, s, b)))
            break
    return fails


CHECKS = {"invariance": check_invariance, "permutation_accepted": check_permutation_accepted}


def ball_part(shard, n_seeds, seed):
    """members of complete one-edit neighbourhoods that the constructor accepts outside the grammar (none where C04 holds)"""
    from . import c04
    part = runner.Part(PID)
    found, tried = c04.accepted_outside_grammar(shard, n_seeds, seed, 5)
    part.count(None, classes=("one-edit-ball-member-tried",), n=tried)
    for ver, t in found[:300]:
        part.classes["ball-member-accepted-outside-grammar"] += 1
        part.check("permutation_accepted", check_permutation_accepted, {"ver": ver, "s": t})
    return part


def subgroup_part(shard, n_v4, seed):
    """
    EVERY assignment of the mandatory metrics of v2 and v3 (both minor versions), and seeded v4 ones, times every sub-group of
    optional metrics (temporal; CDP/TD; CR/IR/AR; the modified exploitability / scope / impact metrics; supplemental): one
    spelling omits the whole sub-group, the other writes all of it as Not Defined; the other sub-groups get a random shape that
    is the same in both.  ("Is this part of the vector used?" shortcuts key on whole sub-groups and are wrong for a few bases.)
    """
    import random
    part = runner.Part(PID)
    rng = random.Random(runner.mix(seed, 55, shard))
    for ver in spec.VKEYS:
        V = spec.VERS[ver]
        if ver == "4":
            names = list(V.mandatory)
            bases = [dict((m, rng.choice(list(V.table[m]))) for m in names) for _ in range(n_v4)]
        else:
            bases = [b for i, b in enumerate(gen.all_bases(ver)) if i % runner.NPROC == shard]
        for base in bases:
            for prefix in V.prefixes * (40 if ver == "2" else 1):       # v2 is small: forty random surroundings of every (base, sub-group)
                for g in gen.SUBGROUPS[ver]:
                    d = dict(base)
                    for other in gen.SUBGROUPS[ver]:
                        if other is not g:
                            gen.rng_shape(rng, ver, other, d)
                    d2 = dict(d)
                    for m in g:
                        d2[m] = V.nd
                    a = ref.build(prefix, d, gen.ordered(set(d), V.order, 0))
                    b = ref.build(prefix, d2, gen.ordered(set(d2), V.order, rng.randrange(1, 1 << 20) if rng.random() < 0.3 else 0))
                    part.count(None, nontrivial=True, distinct=True, classes=("subgroup-sweep", "subgroup-sweep:v" + ver))
                    part.check("invariance", check_invariance, {"ver": ver, "a": a, "b": b})
    return part


def respelling(ver):
    """strategy -> (a, b, n_toggles, permuted)"""
    from hypothesis import strategies as st
    V = spec.VERS[ver]

    @st.composite
    def s(draw):
        prefix, d, order = draw(gen.valid_parts(ver))
        a = ref.build(prefix, d, order)
        d2 = dict(d)
        cands = [m for m in V.optional if d.get(m, V.nd) == V.nd]
        how = draw(st.sampled_from(("single", "single", "subset", "subset", "all", "group")))
        toggles = 0
        if cands:
            if how == "single":
                chosen = [draw(st.sampled_from(cands))]
            elif how == "subset":
                chosen = [m for m in cands if draw(st.booleans())]
            elif how == "all":
                chosen = list(cands)                      # write out / remove every Not Defined optional
            else:
                g = draw(st.sampled_from(sorted(V.groups)))     # all Not Defined metrics of one group
                chosen = [m for m in cands if m in V.groups[g]]
            for m in chosen:
                if m in d2:
                    del d2[m]
                else:
                    d2[m] = V.nd
                toggles += 1
        oseed = draw(gen.order_seed())
        order2 = gen.ordered(set(d2), V.order, oseed)
        b = ref.build(prefix, d2, order2)
        return a, b, toggles, [k for k in order if k in d2] != [k for k in order2 if k in d]
    return s()


def hyp_part(n_examples, shard):
    from hypothesis import given, strategies as st
    part = runner.Part(PID)

    @runner.seeded(5, 100 + shard)
    @runner.hyp_settings(max(1, n_examples // 3))
    @given(gen.version_key().flatmap(lambda v: st.tuples(st.just(v), gen.mutated(v, max_edits=2))), st.integers(1, 2 ** 20))
    def t2(c, oseed):
        ver, (s, ops) = c
        inp = {"ver": ver, "s": s, "oseed": oseed}
        part.check("permutation_accepted", check_permutation_accepted, inp, hyp=True)
        acc = inp.pop("_accepted", False)
        part.count(inp, nontrivial=False, classes=("mutant", "mutant-accepted" if acc else "mutant-rejected"))
    runner.run_hyp(part, t2, "C05.hyp.mutants")

    @runner.seeded(5, shard)
    @runner.hyp_settings(n_examples)
    @given(gen.version_key().flatmap(lambda v: st.tuples(st.just(v), respelling(v))))
    def t(c):
        ver, (a, b, toggles, permuted) = c
        classes = ["v" + ver]
        if toggles:
            classes.append("nd-toggle")
        if toggles == 1:
            classes.append("single-nd-toggle")
        if permuted:
            classes.append("permuted")
        part.count({"ver": ver, "a": a, "b": b}, nontrivial=bool(toggles and permuted), classes=classes)
        part.check("invariance", check_invariance, {"ver": ver, "a": a, "b": b}, hyp=True)
    runner.run_hyp(part, t, "C05.hyp")
    return part


def run(tier, t0):
    part = runner.hyp_shards("vf.props.c05", "hyp_part", 8000 if tier == "quick" else 200000)
    for p in runner.parallel("vf.props.c05", "ball_part", [(sh, 1 if tier == "quick" else 12, runner.SEED) for sh in range(runner.NPROC)]):
        part.merge(p)
    for p in runner.parallel("vf.props.c05", "subgroup_part", [(sh, 150 if tier == "quick" else 4000, runner.SEED) for sh in range(runner.NPROC)]):
        part.merge(p)
    rule = ("accepted vector (any spelling) and a second spelling of the same metric assignment: seeded permutation of "
            "the fields and an independent subset (half of the time exactly one) of the Not Defined optional metrics "
            "toggled between written and omitted; non-trivial = second spelling differs in order AND in at least one "
            "Not Defined toggle; distinct by 64-bit hash of the pair. Plus a sweep over EVERY v2 / v3 assignment of the mandatory metrics (seeded ones for v4) x every "
            "sub-group of optional metrics omitted vs written as Not Defined")
    return runner.finish(part, tier, t0, rule,
                         ["as_json is not among the compared observables (not listed in the statement)"],
                         required=("v2", "v3", "v4", "nd-toggle", "single-nd-toggle", "permuted", "mutant", "one-edit-ball-member-tried", "subgroup-sweep:v2", "subgroup-sweep:v3", "subgroup-sweep:v4"))
