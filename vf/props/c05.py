# -*- coding: utf-8 -*-
"""
C05 - outputs do not depend on field order or on spelling out Not Defined.
Metamorphic: accepted vector x (permutation, toggled subset of Not Defined optionals) -> all listed
observables identical, objects equal both ways, hashes equal.
"""
from __future__ import unicode_literals

from .. import gen, obs, ref, runner, spec
from ..runner import failure

PID = "C05"


def check_invariance(inp):
    ver, a, b = inp["ver"], inp["a"], inp["b"]
    pa, ma = ref.parse(ver, a)
    pb, mb = ref.parse(ver, b)
    if ref.model_key(ver, pa, ma) != ref.model_key(ver, pb, mb):
        raise runner.HarnessError("C05 pair is not a respelling: %r %r" % (a, b))
    ka, oa = obs.construct(ver, a)
    kb, ob = obs.construct(ver, b)
    if ka != "ok" or kb != "ok":
        return [failure("both spellings accepted", [ka, kb])]
    fails = []
    xa, xb = obs.observables(ver, oa), obs.observables(ver, ob)
    for k in sorted(xa):
        if xa[k] != xb[k]:
            fails.append(failure(xa[k], xb[k], note="%s differs between the two spellings" % k))
    if not (oa == ob) or not (ob == oa):
        fails.append(failure(True, False, note="objects built from the two spellings are not equal"))
    if oa != ob:
        fails.append(failure(False, True, note="!= is true for the two spellings"))
    return fails


CHECKS = {"invariance": check_invariance}


def respelling(ver):
    """strategy -> (a, b, n_toggles, permuted)"""
    from hypothesis import strategies as st
    V = spec.VERS[ver]

    @st.composite
    def s(draw):
        prefix, d, order = draw(gen.valid_parts(ver))
        a = ref.build(prefix, d, order)
        d2 = dict(d)
        cands = [m for m in V.optional if d.get(m, V.nd) == V.nd]
        how = draw(st.sampled_from(("single", "single", "subset", "subset", "all", "group")))
        toggles = 0
        if cands:
            if how == "single":
                chosen = [draw(st.sampled_from(cands))]
            elif how == "subset":
                chosen = [m for m in cands if draw(st.booleans())]
            elif how == "all":
                chosen = list(cands)                      # write out / remove every Not Defined optional
            else:
                g = draw(st.sampled_from(sorted(V.groups)))     # all Not Defined metrics of one group
                chosen = [m for m in cands if m in V.groups[g]]
            for m in chosen:
                if m in d2:
                    del d2[m]
                else:
                    d2[m] = V.nd
                toggles += 1
        oseed = draw(gen.order_seed())
        order2 = gen.ordered(set(d2), V.order, oseed)
        b = ref.build(prefix, d2, order2)
        return a, b, toggles, [k for k in order if k in d2] != [k for k in order2 if k in d]
    return s()


def hyp_part(n_examples, shard):
    from hypothesis import given, strategies as st
    part = runner.Part(PID)

    @runner.seeded(5, shard)
    @runner.hyp_settings(n_examples)
    @given(gen.version_key().flatmap(lambda v: st.tuples(st.just(v), respelling(v))))
    def t(c):
        ver, (a, b, toggles, permuted) = c
        classes = ["v" + ver]
        if toggles:
            classes.append("nd-toggle")
        if toggles == 1:
            classes.append("single-nd-toggle")
        if permuted:
            classes.append("permuted")
        part.count({"ver": ver, "a": a, "b": b}, nontrivial=bool(toggles and permuted), classes=classes)
        part.check("invariance", check_invariance, {"ver": ver, "a": a, "b": b}, hyp=True)
    runner.run_hyp(part, t, "C05.hyp")
    return part


def run(tier, t0):
    part = runner.hyp_shards("vf.props.c05", "hyp_part", 8000 if tier == "quick" else 320000)
    rule = ("accepted vector (any spelling) and a second spelling of the same metric assignment: seeded permutation of "
            "the fields and an independent subset (half of the time exactly one) of the Not Defined optional metrics "
            "toggled between written and omitted; non-trivial = second spelling differs in order AND in at least one "
            "Not Defined toggle; distinct by 64-bit hash of the pair")
    return runner.finish(part, tier, t0, rule,
                         ["as_json is not among the compared observables (not listed in the statement)"],
                         required=("v2", "v3", "v4", "nd-toggle", "single-nd-toggle", "permuted"))
