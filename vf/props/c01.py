# -*- coding: utf-8 -*-
"""
C01 - CVSS v3.0/v3.1 base, temporal and environmental scores equal the FIRST equations evaluated in
exact arithmetic.  Exhaustive over the quotient (thorough) / all base-temporal classes and a stratified
sample of environmental classes (quick); one seeded random spelling per class; Hypothesis on top.
"""
from __future__ import unicode_literals

import itertools
import random

from .. import gen, oracles, runner, scorecheck

PID = "C01"
CHECKS = {"score3": scorecheck.check_score("3")}

BK = gen.B3
BASES = list(itertools.product("NALP", "LH", "NLH", "NR", "UC", "HLN", "HLN", "HLN"))
TEMP_SPELLED = list(itertools.product("XHFPU", "XUWTO", "XCRU"))       # 100 spellings incl. X
REQ = list(itertools.product("HML", "HML", "HML"))
TEMP_EFF = list(itertools.product("HFPU", "UWTO", "CRU"))              # 48 effective
ENVC = [(r, t) for r in REQ for t in TEMP_EFF]                          # 1296 per modified assignment
DEFT = {"E": "H", "RL": "U", "RC": "C"}


def _compare(CVSS3, part, v, expf, wf):
    try:
        got = CVSS3(v).scores()
        ok = got == expf and all(wf(g) for g in got)
    except Exception:
        ok = False
    if not ok:
        part.bad.append(v)


def work(unit, tier, seed):
    # every second unit is computed in a fresh non-main thread: a score must not depend on thread-local state
    if unit % 2:
        return runner.in_thread(_work, unit, tier, seed)
    return _work(unit, tier, seed)


def _work(unit, tier, seed):
    import cvss
    CVSS3 = cvss.CVSS3
    minor, bi = divmod(unit, len(BASES))
    part = runner.Part(PID)
    rng = random.Random(runner.mix(seed, 1, unit))
    wf = scorecheck.well_formed_float
    cls = part.classes
    b = dict(zip(BK, BASES[bi]))
    n = nt = 0
    # ---- base / temporal classes: modified metrics inherit, requirements default ---------------
    for (E, RL, RC) in TEMP_SPELLED:
        eff = dict(b)
        for k in BK:
            eff["M" + k] = b[k]
        eff.update({"E": E, "RL": RL, "RC": RC, "CR": "X", "IR": "X", "AR": "X"})
        exp = oracles.score3(minor, eff)
        expf = tuple(float(x) for x in exp)
        # spelling: X written or omitted at random; modified metrics omitted / X / explicit
        f = ["%s:%s" % (k, b[k]) for k in BK]
        for k, v in (("E", E), ("RL", RL), ("RC", RC)):
            if v != "X" or rng.random() < 0.5:
                f.append("%s:%s" % (k, v))
        for k in BK:
            r = rng.randrange(4)
            if r == 1:
                f.append("M%s:X" % k)
            elif r == 2:
                f.append("M%s:%s" % (k, b[k]))
        for k in ("CR", "IR", "AR"):
            r = rng.randrange(4)
            if r == 1:
                f.append("%s:X" % k)
            elif r == 2:
                f.append("%s:M" % k)
        rng.shuffle(f)
        v = "CVSS:3.%d/" % minor + "/".join(f)
        _compare(CVSS3, part, v, expf, wf)
        n += 1
        # the plain spelling of the same class: nothing but the base metrics and the defined temporal metrics
        plain = "CVSS:3.%d/" % minor + "/".join(["%s:%s" % (k, b[k]) for k in BK] + ["%s:%s" % kv for kv in (("E", E), ("RL", RL), ("RC", RC)) if kv[1] != "X"])
        _compare(CVSS3, part, plain, expf, wf)
        n += 1
        if exp[1] != exp[0]:
            nt += 1
    cls["base/temporal"] += len(TEMP_SPELLED)
    cls["base/temporal plain spelling"] += len(TEMP_SPELLED)
    # ---- environmental classes: BASES[bi] is the *modified* assignment ------------------------
    ma = b
    if tier == "thorough":
        combos = ENVC
    else:
        combos = rng.sample(ENVC, 116)
    for (CR, IR, AR), (E, RL, RC) in combos:
        if rng.random() < 0.25:
            base = dict(ma)
        else:
            base = dict(zip(BK, rng.choice(BASES)))
        eff = dict(base)
        for k in BK:
            eff["M" + k] = ma[k]
        opt = {"E": E, "RL": RL, "RC": RC, "CR": CR, "IR": IR, "AR": AR}
        eff.update(opt)
        exp = oracles.score3(minor, eff)
        expf = tuple(float(x) for x in exp)
        v = gen.realise3(rng, minor, base, ma, opt)
        _compare(CVSS3, part, v, expf, wf)
        n += 1
        if exp[2] != exp[0] or exp[1] != exp[0]:
            nt += 1
        cls["env:3.%d:MS=%s:MPR=%s" % (minor, ma["S"], ma["PR"])] += 1
        if oracles.miss_cap_active3(eff):
            cls["cap-active"] += 1
        if exp[2] == 0:
            cls["env=0"] += 1
        if base["S"] != ma["S"]:
            cls["scope-overridden"] += 1
        if len(part.samples) < 1 and unit % 997 == 0:
            part.samples.append({"vector": v, "scores": list(expf)})
    part.evaluations = n
    part.nontrivial_count = nt
    return part


def hyp_part(n_examples, shard):
    from hypothesis import given
    part = runner.Part(PID)
    fn = CHECKS["score3"]

    @runner.seeded(1, shard)
    @runner.hyp_settings(n_examples)
    @given(gen.valid("3"))
    def t(v):
        part.count(None, classes=("hypothesis",))
        part.check("score3", fn, {"vector": v}, hyp=True)
    runner.run_hyp(part, t, "C01.hyp")
    return part


def run(tier, t0):
    n, problems = oracles.selftest(("3",))
    if problems:
        raise runner.HarnessError("oracle self-test failed: %r" % problems[:3])
    part = runner.Part(PID)
    units = range(2 * len(BASES))
    for p in runner.parallel("vf.props.c01", "work", [(u, tier, runner.SEED) for u in units], chunksize=16):
        part.merge(p)
    scorecheck.record_bad_vectors(part, "3", "score3", CHECKS["score3"], part.bad)
    part.merge(runner.hyp_shards("vf.props.c01", "hyp_part", 4800 if tier == "quick" else 64000))
    rule = ("quotient classes: (minor, base assignment, spelled E/RL/RC) with inherited modified metrics, and "
            "(minor, modified assignment, CR, IR, AR, effective E/RL/RC) above a random base assignment; one "
            "seeded random spelling per class (value through base or Modified metric, X written/omitted/"
            "explicit equivalent, shuffled order); non-trivial = class whose temporal or environmental score "
            "differs from its base score; classes distinct by construction. Quick samples 116 of the 1,296 "
            "environmental combinations per (minor, modified assignment).")
    required = ["base/temporal", "base/temporal plain spelling", "cap-active", "env=0", "scope-overridden", "hypothesis"]
    required += ["env:3.%d:MS=%s:MPR=%s" % (m, s, p) for m in (0, 1) for s in "UC" for p in "NLH"]
    return runner.finish(
        part, tier, t0, rule,
        ["exact Fraction oracle typed from the v3.0/v3.1 specifications, self-tested against %d official vectors" % n,
         "fibre invariance above a class is sampled (one spelling per class); see C05/C06"],
        exhaustive=(tier == "thorough"), required=required,
        extra={"quotient_size": 2 * 2592 * 100 + 2 * 2592 * 1296})
