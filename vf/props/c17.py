# -*- coding: utf-8 -*-
"""
C17 - the command-line calculator reports what the library computes and never crashes.
Differential / model-based: the report on stdout is parsed line-wise by label and compared with the
library API for the same vector; interactive runs are predicted by the dialogue model of C16.
"""
from __future__ import unicode_literals

import json
from collections import OrderedDict

from .. import cli, gen, interact, obs, ref, runner, spec
from ..runner import failure

PID = "C17"
FLAGVER = {"-2": 2, "-3": 3.0, "-4": 4.0}
DEFAULT = 3.1


def selected_versions(argv):
    vs = [FLAGVER[a] for a in argv if a in FLAGVER]
    return vs or [DEFAULT]


SHORT = "234jan"


def is_cluster(a):
    """several short flags in one element, possibly ending in v and its attached value"""
    if len(a) <= 2 or a[0] != "-" or a[1] == "-":
        return False
    body = a[1:]
    j = 0
    while j < len(body) and body[j] in SHORT:
        j += 1
    return j == len(body) or body[j] == "v"


def expand(argv):
    """POSIX spellings -> one flag per element: '-ja3' = -j -a -3, '-jvVEC' = -j --vector=VEC, '-v VEC' = --vector=VEC"""
    out, i = [], 0
    while i < len(argv):
        a = argv[i]
        if a in ("-v", "--vector") and i + 1 < len(argv):
            out.append("--vector=" + argv[i + 1])
            i += 2
            continue
        if is_cluster(a):
            body = a[1:]
            j = 0
            while j < len(body) and body[j] in SHORT:
                out.append("-" + body[j])
                j += 1
            if j < len(body):          # body[j] == "v"
                rest = body[j + 1:]
                if rest:
                    out.append("--vector=" + rest)
                elif i + 1 < len(argv):
                    out.append("--vector=" + argv[i + 1])
                    i += 1
                else:
                    out.append("-v")
            i += 1
            continue
        out.append(a)
        i += 1
    return out


def cluster(draw, argv):
    """an equivalent POSIX spelling of the command line: short flags clustered, the -v value attached"""
    from hypothesis import strategies as st
    out, i = [], 0
    while i < len(argv):
        a = argv[i]
        if len(a) == 2 and a[0] == "-" and a[1] in SHORT:
            run = a[1]
            i += 1
            while i < len(argv) and len(argv[i]) == 2 and argv[i][0] == "-" and argv[i][1] in SHORT and draw(st.integers(0, 3)):
                run += argv[i][1]
                i += 1
            if i + 1 < len(argv) and argv[i] == "-v" and draw(st.booleans()):
                val = argv[i + 1]
                if val and not val.startswith("=") and draw(st.booleans()):
                    out.append("-" + run + "v" + val)
                else:
                    out += ["-" + run + "v", val]
                i += 2
            else:
                out.append("-" + run)
            continue
        if a == "-v" and i + 1 < len(argv) and argv[i + 1] and not argv[i + 1].startswith("=") and draw(st.booleans()):
            out.append("-v" + argv[i + 1])
            i += 2
            continue
        if a in ("-v", "--vector") and i + 1 < len(argv):
            out += [a, argv[i + 1]]
            i += 2
            continue
        out.append(a)
        i += 1
    return out


def vector_arg(argv):
    for i, a in enumerate(argv):
        if a.startswith("--vector="):
            return a[len("--vector="):]
        if a in ("-v", "--vector") and i + 1 < len(argv):
            return argv[i + 1]
    return None


def expected_report(version, vector, want_json):
    """what the API says about the vector under that version: ('report', fields) or ('error', message)"""
    ver = interact.verkey(version)
    k, val = obs.construct(ver, vector)
    if k != "ok":
        if k.startswith("foreign") or k.startswith("outside"):
            return ("api-crash", repr(val))
        return ("error", str(val))
    o = val
    rep = {"scores": list(o.scores()), "clean": o.clean_vector(), "rh": o.rh_vector(), "ver": ver}
    rep["severities"] = list(o.severities()) if ver in ("3", "4") else None
    rep["severities2"] = list(o.severities()) if ver == "2" else None
    if want_json:
        rep["json"] = json.loads(json.dumps(o.as_json(sort=True, minimal=True)), object_pairs_hook=OrderedDict)
    return ("report", rep)


LABELS = ("Base Score", "Temporal Score", "Environmental Score")


def parse_report(out):
    """line-wise, by label, last occurrence wins (the dialogue precedes the report in interactive runs)"""
    got = {"scores": {}, "clean": None, "rh": None, "json": None}
    lines = out.split("\n")
    for i, line in enumerate(lines):
        for lab in LABELS:
            if line.startswith(lab + ":"):
                got["scores"][lab] = line[len(lab) + 1:].split()
        if line.startswith("Cleaned vector:"):
            got["clean"] = line[len("Cleaned vector:"):].strip()
        if line.startswith("Red Hat vector:"):
            got["rh"] = line[len("Red Hat vector:"):].strip()
        if line.startswith("CVSS vector in JSON:"):
            try:
                got["json"] = json.loads("\n".join(lines[i + 1:]), object_pairs_hook=OrderedDict)
            except ValueError as e:
                got["json"] = "unparsable: %s" % e
    return got


def compare_report(rep, out, want_json):
    got = parse_report(out)
    fails = []
    for i, lab in enumerate(LABELS):
        if i >= len(rep["scores"]):
            continue
        sc = rep["scores"][i]
        toks = got["scores"].get(lab)
        if sc is None:
            if toks is not None and toks != ["None"]:
                fails.append(failure("no %s line or 'None'" % lab, toks))
            continue
        want = [str(sc)] + (["(%s)" % rep["severities"][i]] if rep["severities"] else [])
        if rep["ver"] == "2" and rep.get("severities2") and toks is not None:
            # 'the scores with their ratings ... as the library API reports them': CVSS2.severities() reports ratings, the calculator prints
            # the bare number for v2.  Recognised by its exact shape (listed known finding); anything else on the line is judged as usual
            if toks[:2] == [str(sc), "(%s)" % rep["severities2"][i]]:
                continue
            if toks[:1] == [str(sc)] and (len(toks) == 1 or not toks[1].startswith("(")):
                fails.append(failure("%s: %s (%s)" % (lab, sc, rep["severities2"][i]), " ".join(toks), key="cli.v2-no-ratings"))
                continue
        if toks is None:
            fails.append(failure("%s: %s" % (lab, " ".join(want)), "line missing"))
        elif toks[:len(want)] != want:
            fails.append(failure("%s: %s" % (lab, " ".join(want)), " ".join(toks)))
    if got["clean"] != rep["clean"]:
        fails.append(failure("Cleaned vector: " + rep["clean"], got["clean"]))
    if got["rh"] != rep["rh"]:
        fails.append(failure("Red Hat vector: " + rep["rh"], got["rh"]))
    if want_json:
        if got["json"] is None:
            fails.append(failure("JSON document after 'CVSS vector in JSON:'", "missing"))
        elif got["json"] != rep["json"] or (isinstance(got["json"], dict) and list(got["json"].items()) != list(rep["json"].items())):
            fails.append(failure(json.dumps(rep["json"])[:300], json.dumps(got["json"])[:300], note="must equal as_json(sort=True, minimal=True) incl. key order"))
    return fails


# environments of the child process: locale variables naming installed, uninstalled and malformed locales, terminal
# variables, an absent HOME.  (PYTHONIOENCODING stays utf-8: what the interpreter can print is not the program's business.)
ENVIRONMENTS = (
    {}, {"LC_ALL": "C"}, {"LC_ALL": "POSIX"}, {"LC_ALL": "C.UTF-8"}, {"LC_ALL": "en_US.UTF-8"}, {"LANG": "xx_YY.UTF-8"}, {"LC_ALL": "tr_TR.UTF-8"},
    {"LC_ALL": "no-such-locale"}, {"LC_NUMERIC": "de_DE.UTF-8", "LANG": "C"}, {"LC_CTYPE": "ja_JP.eucJP"}, {"LANGUAGE": "de:fr", "LANG": "de_DE@euro"},
    {"LC_ALL": ""}, {"TERM": "dumb"}, {"TERM": None}, {"NO_COLOR": "1"}, {"COLUMNS": "20", "LINES": "5"}, {"COLUMNS": "x"}, {"HOME": None},
    {"HOME": "/nonexistent"}, {"TZ": "Pacific/Kiritimati"}, {"PYTHONUNBUFFERED": "1"}, {"PYTHONUTF8": "1"}, {"PYTHONUTF8": "0", "LC_ALL": "C"},
    {"FORCE_COLOR": "1", "CLICOLOR_FORCE": "1"}, {"DEBUG": "1", "VERBOSE": "1"}, {"TMPDIR": "/nonexistent"},
)


TERMINAL_ENVS = ({}, {"TERM": None}, {"TERM": "dumb"}, {"TERM": ""}, {"TERM": "vt100", "NO_COLOR": "1"}, {"TERM": None, "COLUMNS": None, "LINES": None, "HOME": None},
                 {"TERM": "xterm-256color", "COLORTERM": "truecolor"}, {"TERM": "unknown-terminal-type"})


def typeable(inp):
    """answers that can be typed at a terminal as they are: printable ASCII (control characters are commands to the line discipline), with a
    complete dialogue (a terminal has no end of input to offer)"""
    lines = inp.get("stdin") or []
    if not all(32 <= ord(c) < 127 for l in lines for c in l) or any(len(l) > 200 for l in lines):
        return False
    argv = expand(inp["argv"])
    allm = ("-a" in argv) or ("--all" in argv)
    for version in selected_versions(argv):
        order = interact.probe_order(version, allm)
        if order is None or interact.model(interact.verkey(version), order, lines)[0] is None:
            return False
    return True


def planted_file(inp):
    """(relative path = the VECTOR argument, content = another valid vector) when the case asks for it"""
    if not inp.get("plant"):
        return None
    argv = expand(inp["argv"])
    vec = vector_arg(argv)
    if not vec or "\x00" in vec:
        return ("unrelated", "x")
    versions = selected_versions(argv)
    ver = interact.verkey(versions[0])
    V = spec.VERS[ver]
    alt = ref.build(V.prefixes[-1], dict((k, V.table[k][0]) for k in V.mandatory), list(V.mandatory))
    if alt == vec:
        alt = ref.build(V.prefixes[-1], dict((k, V.table[k][-1]) for k in V.mandatory), list(V.mandatory))
    return (vec, alt + "\n")


def decoded_differently(inp):
    """a child whose locale / UTF-8 mode differs decodes non-ASCII bytes of its command line differently: it is then given
    ANOTHER command line than the one written down here, and only status and tracebacks can be judged"""
    env = inp.get("env") or {}
    if inp.get("subprocess") and any(0xDC80 <= ord(c) <= 0xDCFF for l in (inp.get("stdin") or []) for c in l):
        return True         # undecodable bytes on a real standard input: how much of the input survives the decoding error is the
                            # interpreter's business (a pipe loses the buffered rest); status and tracebacks are judged
    return bool(inp.get("subprocess")) and any(k in env for k in ("LC_ALL", "LC_CTYPE", "LANG", "PYTHONUTF8")) and \
        any(ord(c) > 127 for a in inp["argv"] for c in a)


def same_message(rep, out):
    """
    the library's message on stdout.  A message that quotes characters no output stream can encode (lone surrogates from
    undecodable command-line bytes) cannot be printed verbatim: then the ASCII parts must appear in order, whatever stands
    for the rest (escapes, replacement characters ...).
    """
    import re
    if out.strip() == rep.strip():
        return True
    if not any(0xD800 <= ord(c) <= 0xDFFF for c in rep):
        return False
    parts = [re.escape(p) for p in re.split("[^\x00-\x7f]+", rep.strip())]
    return re.match("^" + ".*?".join(parts) + "$", out.strip(), re.S) is not None


def check_cli(inp):
    argv, stdin = inp["argv"], inp.get("stdin")
    raw = argv
    if inp.get("pty"):
        r = cli.run_pty(argv, inp["pty"][0], inp["pty"][1], console_script=bool(inp.get("console_script")), stdin_lines=stdin, env_extra=inp.get("env"))
        if r["status"] is None:
            return []           # time budget: inconclusive
    elif inp.get("subprocess"):
        r = cli.run_subprocess(argv, stdin, console_script=bool(inp.get("console_script")), env_extra=inp.get("env"), plant=planted_file(inp))
    else:
        r = cli.run_inprocess(argv, stdin)
    fails = []
    if r["exc"] or r["status"] != 0 or "Traceback (most recent call last)" in r["err"] or "Traceback (most recent call last)" in r["out"]:
        return [failure("exit status 0, no traceback", {"status": r["status"], "exc": r["exc"], "stderr": r["err"][-300:]})]
    if decoded_differently(inp):
        return []
    argv = expand(argv)         # the model reads the command line one flag per element
    versions = selected_versions(argv)
    want_json = ("-j" in argv) or ("--json" in argv)
    allm = ("-a" in argv) or ("--all" in argv)
    nocol = ("-n" in argv) or ("--no-colors" in argv)
    vector = vector_arg(argv)
    if vector == "--":
        return []       # the bare '--' is consumed by argparse itself, differently in different Python versions: outside the domain
    out = r["out"]
    alternatives = []
    if vector is not None:      # an empty VECTOR is a vector that was given (and is not valid)
        for version in versions:
            kind, rep = expected_report(version, vector, want_json)
            if kind == "report":
                f = compare_report(rep, out, want_json)
            elif kind == "error":
                f = [] if same_message(rep, out) else [failure(rep, out[:300], note="library error message expected on stdout")]
            else:
                f = []
            alternatives.append(f)
    else:
        for version in versions:
            ver = interact.verkey(version)
            order = interact.probe_order(version, allm)
            if order is None:
                alternatives.append([failure("builder probe", "failed")])
                continue
            vals, used = interact.model(ver, order, stdin or [])
            if vals is None:
                f = []
                if "Cleaned vector:" in out or "Red Hat vector:" in out:
                    f.append(failure("clean end without a report (input ended during the dialogue)", out[-200:]))
                alternatives.append(f)
            else:
                vec = interact.expected_prefix(version) + "/".join("%s:%s" % mv for mv in vals)
                kind, rep = expected_report(version, vec, want_json)
                if kind != "report":
                    alternatives.append([failure("model vector %r accepted by the API" % vec, rep)])
                else:
                    alternatives.append(compare_report(rep, out, want_json))
    best = min(alternatives, key=lambda f: len([x for x in f if not x.get("key")]))      # a listed known finding does not make an alternative worse
    return best


CHECKS = {"cli": check_cli}


def case_strategy():
    from hypothesis import strategies as st

    @st.composite
    def s(draw):
        k = draw(st.integers(0, 9))
        if k <= 1:
            flags = []
        elif k <= 7:
            flags = [draw(st.sampled_from(("-2", "-3", "-4")))]
        else:
            flags = draw(st.lists(st.sampled_from(("-2", "-3", "-4")), min_size=2, max_size=3, unique=True))
        version = FLAGVER[flags[0]] if flags else DEFAULT
        ver = interact.verkey(version)
        argv = list(flags)
        for f, longf in (("-j", "--json"), ("-a", "--all"), ("-n", "--no-colors")):
            if draw(st.booleans()):
                argv.append(f if draw(st.integers(0, 3)) else longf)
                if draw(st.integers(0, 7)) == 0:
                    argv.append(draw(st.sampled_from((f, longf))))       # the same flag twice is still 'built from' the flags
        if flags and draw(st.integers(0, 9)) == 0:
            argv.append(flags[0])
        mode = draw(st.sampled_from(("valid", "valid", "valid", "other-version", "mutant", "text", "argparse-special", "interactive", "interactive",
                                     "interactive-eof")))
        stdin = None
        if mode.startswith("interactive"):
            allm = ("-a" in argv) or ("--all" in argv)
            V = spec.VERS[ver]
            order = interact.probe_order(version, allm) or list(V.order if allm else V.mandatory)
            stdin, meta = draw(interact.script_strategy(version, allm, order, complete=(mode == "interactive")))
        else:
            if mode == "valid":
                vec = draw(gen.valid(ver))
            elif mode == "other-version":
                vec = draw(gen.valid(draw(st.sampled_from([x for x in spec.VKEYS if x != ver]))))
            elif mode == "mutant":
                vec = draw(gen.mutated(ver))[0]
            elif mode == "argparse-special":
                # values that option parsers like to interpret themselves: @file, leading dashes, '=', option look-alikes
                pre = draw(st.sampled_from(("@", "@/dev/null", "@-", "@@", "=", "+", "-", "--", "-v", "--vector", "--vector=", "-j", "--json", "-h",
                                            "--help", "-2", "--", "-x", "--all=1")))
                vec = pre + draw(st.sampled_from(("", draw(gen.valid(ver)))))
                if vec == "--":
                    vec = "--x"      # the bare '--' is consumed by argparse itself (nothing reaches the program): a precondition
                                     # of any argparse command line, like the '--vector=VALUE' form for values starting with '-'
            elif draw(st.integers(0, 3)) == 0:
                # bytes of the command line that are not valid UTF-8 reach the program as lone surrogates U+DC80..U+DCFF (PEP 383)
                base = draw(st.one_of(gen.valid(ver), st.text(alphabet="AVCN:/ ", max_size=8)))
                i = draw(st.integers(0, len(base)))
                vec = base[:i] + draw(st.sampled_from(("\udcff", "\udc80", "\udce9", "\udcc3(", "\udcfe\udcff", "\udce2\udc82"))) + base[i:]
            else:
                vec = draw(st.text(alphabet=st.characters(blacklist_categories=("Cs",), blacklist_characters="\x00"), max_size=30))
            if vec.startswith("-") or draw(st.booleans()):
                argv.append("--vector=" + vec)
            else:
                argv += [draw(st.sampled_from(("-v", "--vector"))), vec]
            if draw(st.integers(0, 4)) == 0:
                stdin = ["N", "L"]         # stray input must be harmless
        order_seed = draw(gen.order_seed())
        if order_seed and not any(a in ("-v", "--vector") for a in argv):
            import random
            random.Random(order_seed).shuffle(argv)
        if draw(st.integers(0, 2)) == 0:
            argv2 = cluster(draw, argv)
            if argv2 != argv and expand(argv2) == expand(argv):
                argv = argv2
        return {"argv": argv, "stdin": stdin}, mode, len(flags)
    return s()


def hyp_part(n_examples, shard, n_sub):
    from hypothesis import given
    part = runner.Part(PID)
    every = max(1, n_examples // max(1, n_sub))

    @runner.seeded(17, shard)
    @runner.hyp_settings(n_examples)
    @given(case_strategy())
    def t(c):
        inp, mode, nflags = c
        classes = ["mode:" + mode, "flags=%d" % min(nflags, 2)]
        if any(is_cluster(a) for i, a in enumerate(inp["argv"]) if i == 0 or inp["argv"][i - 1] not in ("-v", "--vector")):
            classes.append("clustered-short-flags")
        if "-j" in inp["argv"] or "--json" in inp["argv"]:
            classes.append("json")
        nt = ("json" in classes and mode == "valid") or mode in ("mutant", "other-version", "text", "argparse-special", "interactive-eof")
        part.count(inp, nontrivial=nt, classes=classes)
        ok = part.check("cli", check_cli, inp, hyp=True)
        # which cases are re-run as real processes, and how, is a function of the case (a counter would make a failure
        # irreproducible for the library's own replay)
        k = runner.h64(json.dumps([inp["argv"], inp["stdin"]], sort_keys=True))
        if ok and k % every == 0 and "\n" not in "".join(inp["argv"]) and cli.can_be_argv(inp["argv"]):
            k //= every
            part.classes["subprocess"] += 1
            a = cli.run_inprocess(inp["argv"], inp["stdin"])
            cs = bool(k % 2)          # alternately 'python -m cvss.cvss_calculator' and the console-script launcher
            sub = dict(inp, subprocess=True, console_script=cs, env=ENVIRONMENTS[k % len(ENVIRONMENTS)], plant=bool(k % 3 == 0))
            part.classes["subprocess-env:%s" % ",".join(sorted(sub["env"])) if sub["env"] else "subprocess-env:unchanged"] += 1
            if sub["plant"]:
                part.classes["subprocess-with-file-named-like-the-vector"] += 1
            b = cli.run_subprocess(inp["argv"], inp["stdin"], console_script=cs, env_extra=sub["env"], plant=planted_file(sub))
            if b["status"] != 0 or "Traceback" in b["err"]:
                raise runner.Falsified("cli", sub, [failure("exit status 0, no traceback", {"status": b["status"], "stderr": b["err"][-300:]})])
            if inp["stdin"] is None and k % 2 == 0 and all(ord(c) < 128 for x in inp["argv"] for c in x) and vector_arg(expand(inp["argv"])) is not None:
                # the same command line typed at a terminal of some size
                term = dict(inp, pty=[(80, 24), (40, 10), (132, 50), (20, 5), (200, 60), (81, 25)][(k // 2) % 6], console_script=cs)
                part.classes["terminal %dx%d" % tuple(term["pty"])] += 1
                c = cli.run_pty(inp["argv"], term["pty"][0], term["pty"][1], console_script=cs)
                if c["status"] is None:
                    part.notes.append("a terminal run exceeded its time budget (inconclusive): %r" % (inp["argv"],))
                elif c["status"] != 0 or "Traceback" in c["err"] or "Traceback" in c["out"]:
                    raise runner.Falsified("cli", term, [failure("exit status 0, no traceback", {"status": c["status"], "stderr": c["err"][-300:]})])
                elif c["out"] != a["out"]:
                    raise runner.Falsified("cli", term, [failure(a["out"][-300:], c["out"][-300:], note="output on a %dx%d terminal differs from the captured in-process output" % tuple(term["pty"]))])
            if inp["stdin"] is not None and k % 2 == 1 and typeable(inp):
                # the dialogue at a terminal: answers typed ahead on a pseudo-terminal, under several terminal environments
                term = dict(inp, pty=[80, 24], console_script=cs, env=TERMINAL_ENVS[(k // 2) % len(TERMINAL_ENVS)])
                part.classes["dialogue at a terminal"] += 1
                f = part.split_known(check_cli(term), term)       # listed findings (bare v2 score lines) are counted, not raised
                if f:
                    raise runner.Falsified("cli", term, f)
            if a["out"] != b["out"] and not decoded_differently(sub):
                raise runner.Falsified("cli", sub, [failure(a["out"][-300:], b["out"][-300:], note="subprocess stdout differs from in-process stdout")])
    runner.run_hyp(part, t, "C17.hyp")
    return part


def prefix_part(shard, seed):
    """
    VECTOR arguments whose PREFIX carries one look-alike of one of its characters (other scripts' digits, superscripts, full-width
    forms ...: whatever isdigit() / int() / \\d / case folding accept), for every position of every prefix and every look-alike in
    the pinned table: the library's message, never a traceback (in-process; every eighth as a real child)
    """
    import random
    part = runner.Part(PID)
    rng = random.Random(runner.mix(seed, 1719, shard))
    conf = gen.confusables()
    k = 0
    for flag, prefix, ver in (("-3", "CVSS:3.1/", "3"), (None, "CVSS:3.0/", "3"), ("-4", "CVSS:4.0/", "4"), ("-2", "CVSS:2.0/", "2")):
        for pos, ch in enumerate(prefix):
            for alt in conf.get(ch, []) + ["", ch + ch]:
                k += 1
                if k % runner.NPROC != shard:
                    continue
                body = gen.rng_vector(rng, ver)
                body = body[len(prefix):] if body.startswith(prefix) else body[body.index("/") + 1:] if body.startswith("CVSS:") else body
                vec = prefix[:pos] + alt + prefix[pos + 1:] + body
                argv = ([flag] if flag else []) + (["-j"] if k % 3 == 0 else []) + ["--vector=" + vec]
                inp = {"argv": argv, "stdin": None}
                if k % 8 == 0 and cli.can_be_argv(argv):
                    inp.update(subprocess=True, console_script=bool(k % 16 == 0), env={})
                part.count(inp, nontrivial=True, classes=("prefix look-alike",))
                part.check("cli", check_cli, inp)
    return part


def env_part(shard, seed):
    """
    every environment variable the tree under test may consult (gen.tree_env_names: none on a tree that never looks at the
    environment) set to each of a dozen values, alone: vector mode, complete dialogue and early end of input, as real children
    """
    import random
    part = runner.Part(PID)
    names = gen.tree_env_names()
    combos = [(nm, val) for nm in names for val in gen.ENV_VALUES]
    rng = random.Random(runner.mix(seed, 1718, shard))
    for j, (nm, val) in enumerate(combos):
        if j % runner.NPROC != shard:
            continue
        for flag in ("-2", "-3", "-4", None):
            version = FLAGVER[flag] if flag else DEFAULT
            ver = interact.verkey(version)
            V = spec.VERS[ver]
            vec = gen.rng_vector(rng, ver)
            order = interact.probe_order(version, False) or list(V.mandatory)
            answers = [rng.choice(V.table[m]) for m in order]
            base = [flag] if flag else []
            for argv, stdin in ((base + ["--vector=" + vec], None), (base + ["-j", "-n", "--vector=" + vec[:-1]], None), (base, answers), (base + ["-n", "-j"], answers),
                                (base, answers[:len(answers) // 2]), (base + ["-a"], [])):
                inp = {"argv": argv, "stdin": stdin, "subprocess": True, "console_script": bool(j % 2), "env": {nm: val}}
                part.count(inp, nontrivial=True, classes=("environment variable named in the tree",))
                part.check("cli", check_cli, inp)
    return part


def pty_dialogue_part(shard, n, seed):
    """complete, typeable dialogues at a pseudo-terminal under every terminal environment (deterministic answers from a seeded generator)"""
    import random
    part = runner.Part(PID)
    rng = random.Random(runner.mix(seed, 1717, shard))
    combos = [(f, allm, e) for f in ("-2", "-3", "-4", None) for allm in (False, True) for e in range(len(TERMINAL_ENVS))]
    for i in range(n):
        flag, allm, e = combos[(shard * n + i) % len(combos)]
        version = FLAGVER[flag] if flag else DEFAULT
        ver = interact.verkey(version)
        V = spec.VERS[ver]
        order = interact.probe_order(version, allm) or list(V.order if allm else V.mandatory)
        answers = []
        for m in order:
            if rng.random() < 0.3:
                answers.append(rng.choice(("?", "help", "zz", m + ":" + V.table[m][0], "done")))       # asked again
            v = rng.choice(V.table[m])
            answers.append(rng.choice((v, v.lower(), " " + v, v + " ")))
        argv = ([flag] if flag else []) + (["-a"] if allm else []) + rng.choice(([], ["-n"], ["-j"], ["-n", "-j"]))
        inp = {"argv": argv, "stdin": answers, "pty": [rng.choice((80, 40, 132)), 24], "console_script": bool(i % 2), "env": TERMINAL_ENVS[e]}
        part.count(inp, nontrivial=True, classes=("dialogue at a terminal", "terminal env:%s" % ",".join("%s=%s" % kv for kv in sorted(TERMINAL_ENVS[e].items(), key=str)) or "terminal env:unchanged"))
        part.check("cli", check_cli, inp)
    return part


def run(tier, t0):
    if tier == "quick":
        part = runner.hyp_shards("vf.props.c17", "hyp_part", 4800, args=(20,))
    else:
        part = runner.hyp_shards("vf.props.c17", "hyp_part", 160000, args=(300,))
    for p in runner.parallel("vf.props.c17", "pty_dialogue_part", [(sh, 4 if tier == "quick" else 32, runner.SEED) for sh in range(runner.NPROC)]):
        part.merge(p)
    for p in runner.parallel("vf.props.c17", "prefix_part", [(sh, runner.SEED) for sh in range(runner.NPROC)]):
        part.merge(p)
    for p in runner.parallel("vf.props.c17", "env_part", [(sh, runner.SEED) for sh in range(runner.NPROC)]):
        part.merge(p)
    from ..fuzz import driver
    fuzz_note = driver.campaign(part, "cli", runs=80000 if tier == "quick" else 1000000)
    rule = ("command lines: 0/1/several of -2 -3 -4, -j/-a/-n (short or long), vector (valid for the selected version, valid "
            "for another version, 1-3-edit mutant, arbitrary text without NUL/surrogates; '-v X', '--vector X' or '--vector=X') "
            "or interactive entry with a C16 answer script (complete or truncated = premature EOF); shuffled flag order. A "
            "fixed number of passing cases per shard is re-run as a real subprocess (exit status, no traceback, same stdout). "
            "non-trivial = valid vector with -j, or invalid vector, or truncated stdin; distinct by hash")
    return runner.finish(part, tier, t0, rule,
                         ["coverage-guided: " + fuzz_note, "several version flags: the report of any selected version is accepted (precedence undefined by the statement)",
                          "layout/padding, banners and prompts are not asserted; the missing v2 ratings are a listed known finding; a None v2 score line may be printed or omitted"],
                         required=("dialogue at a terminal", "prefix look-alike", "clustered-short-flags", "mode:valid", "mode:other-version", "mode:mutant", "mode:text", "mode:argparse-special", "mode:interactive", "mode:interactive-eof",
                                   "flags=0", "flags=1", "flags=2", "json", "subprocess"))
