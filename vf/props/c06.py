# -*- coding: utf-8 -*-
"""
C06 - only effective metric values influence the scores (non-interference).
Metamorphic: accepted vector + a non-empty set of eligible substitutions of one clause (a)-(e).
The check re-derives from the two vectors that every difference is an eligible substitution of the
claimed clause (self-validating replay), then compares the scores the clause constrains.
"""
from __future__ import unicode_literals

from .. import gen, obs, ref, runner, spec
from ..runner import failure

PID = "C06"
CLAUSES = ("a", "b", "c", "d", "e-temporal+env", "e-env")


def _groups(ver):
    V = spec.VERS[ver]
    if ver == "4":
        return (), ()
    return V.groups["temporal"], V.groups["environmental"]


def eligible(ver, clause, ma, k, va, vb):
    """is changing metric k from va to vb (None = absent) an eligible substitution of the clause?"""
    V = spec.VERS[ver]
    nd = V.nd
    und = lambda v: v is None or v == nd
    if clause == "a":
        base = spec.MODIFIED.get(ver, {}).get(k)
        return base is not None and und(va) and vb == ma[base]
    if clause == "b":
        return k in spec.ND_EQUIV[ver] and und(va) and vb == spec.ND_EQUIV[ver][k]
    if clause == "c":
        return ver == "4" and k in spec.SUPPLEMENTAL4
    if clause == "d":
        if ver not in ("3", "4") or k not in V.mandatory:
            return False
        mod = ma.get("M" + k)
        return ("M" + k) in V.table and not und(mod) and va is not None and vb is not None
    t, e = _groups(ver)
    if clause == "e-temporal+env":
        return k in t or k in e
    if clause == "e-env":
        return k in e
    return False


def check_noninterference(inp):
    ver, clause, a, b = inp["ver"], inp["clause"], inp["a"], inp["b"]
    pa, ma = ref.parse(ver, a)
    pb, mb = ref.parse(ver, b)
    if pa != pb:
        raise runner.HarnessError("C06 pair differs in prefix")
    diffs = [k for k in set(ma) | set(mb) if ma.get(k) != mb.get(k)]
    for k in diffs:
        if not eligible(ver, clause, ma, k, ma.get(k), mb.get(k)):
            raise runner.HarnessError("C06: %s %r -> %r is not an eligible substitution of clause %s (%r, %r)"
                                      % (k, ma.get(k), mb.get(k), clause, a, b))
        if clause == "d" and mb.get("M" + k) != ma.get("M" + k):
            raise runner.HarnessError("C06 d: override changed as well")
    if ver == "3" and inp.get("twin_first"):
        # the same two assignments under the OTHER minor version are scored first: a score is a function of the vector, not of
        # what was scored before (3.0 and 3.1 differ in the modified impact formula and share everything else)
        for x in (a, b):
            obs.construct(ver, ("CVSS:3.1/" if pa == "CVSS:3.0/" else "CVSS:3.0/") + x[len(pa):])
    ka, oa = obs.construct(ver, a)
    kb, ob = obs.construct(ver, b)
    if ka != "ok" or kb != "ok":
        return [failure("both vectors accepted", [ka, kb])]
    sa, sb = oa.scores(), ob.scores()
    if clause in ("a", "b", "c"):
        slots = [i for i, x in enumerate(sa) if x is not None]      # every score DEFINED in the original
    elif clause == "d":
        slots = [len(sa) - 1]                                        # v3 environmental / v4 score
    elif clause == "e-temporal+env":
        slots = [0]
    else:
        slots = [0, 1] if sa[1] is not None else [0]
    fails = []
    for i in slots:
        if sa[i] != sb[i]:
            fails.append(failure(sa[i], sb[i], note="score[%d] changed under clause (%s) substitution of %s" % (i, clause, sorted(diffs))))
    return fails


CHECKS = {"noninterference": check_noninterference}


def substitution(ver):
    """strategy -> (clause, a, b, changed metrics)"""
    from hypothesis import strategies as st
    V = spec.VERS[ver]
    nd = V.nd
    clauses = {"2": ("b", "e-temporal+env", "e-env"), "3": ("a", "b", "d", "e-temporal+env", "e-env"),
               "4": ("a", "b", "c", "d")}[ver]

    @st.composite
    def s(draw):
        prefix, d, order = draw(gen.valid_parts(ver))
        clause = draw(st.sampled_from(clauses))
        d = dict(d)
        if clause == "d":
            # make sure at least one base metric is overridden by a defined Modified metric
            mods = [m for m in V.optional if m in spec.MODIFIED.get(ver, {})]
            forced = draw(st.sampled_from(mods))
            if d.get(forced, nd) == nd:
                d[forced] = draw(st.sampled_from([x for x in V.table[forced] if x != nd]))
        a = ref.build(prefix, d, gen.ordered(set(d), V.order, draw(gen.order_seed())))
        d2 = dict(d)
        if clause == "a":
            cands = [m for m in V.optional if m in spec.MODIFIED.get(ver, {}) and d.get(m, nd) == nd]
        elif clause == "b":
            cands = [m for m in spec.ND_EQUIV[ver] if d.get(m, nd) == nd]
        elif clause == "c":
            cands = list(spec.SUPPLEMENTAL4)
        elif clause == "d":
            cands = [spec.MODIFIED[ver][m] for m in V.optional if m in spec.MODIFIED.get(ver, {}) and d.get(m, nd) != nd]
        elif clause == "e-temporal+env":
            cands = list(V.groups["temporal"]) + list(V.groups["environmental"])
        else:
            cands = list(V.groups["environmental"])
        if not cands:
            return clause, a, a, ()
        first = draw(st.sampled_from(cands))
        chosen = [m for m in cands if m == first or draw(st.booleans())]
        changed = []
        for m in chosen:
            if clause == "a":
                d2[m] = d[spec.MODIFIED[ver][m]]
            elif clause == "b":
                d2[m] = spec.ND_EQUIV[ver][m]
            elif clause == "d":
                d2[m] = draw(st.sampled_from(V.table[m]))
            else:
                nv = draw(st.sampled_from((None,) + tuple(V.table[m])))
                if nv is None:
                    d2.pop(m, None)
                else:
                    d2[m] = nv
            if d2.get(m) != d.get(m):
                changed.append(m)
        b = ref.build(prefix, d2, gen.ordered(set(d2), V.order, draw(gen.order_seed())))
        return clause, a, b, tuple(changed)
    return s()


def hyp_part(n_examples, shard):
    from hypothesis import given, strategies as st
    part = runner.Part(PID)

    @runner.seeded(6, shard)
    @runner.hyp_settings(n_examples)
    @given(gen.version_key().flatmap(lambda v: st.tuples(st.just(v), substitution(v))))
    def t(c):
        ver, (clause, a, b, changed) = c
        classes = ["v%s:%s" % (ver, clause)] if changed else ["no-change"]
        for m in changed:
            classes.append("v%s:%s:%s" % (ver, clause[0], m))
        twin = ver == "3" and runner.h64(a) % 2 == 0
        if twin:
            classes.append("minor-twin-scored-first")
        part.count({"ver": ver, "clause": clause, "a": a, "b": b}, nontrivial=bool(changed), classes=classes)
        part.check("noninterference", check_noninterference, {"ver": ver, "clause": clause, "a": a, "b": b, "twin_first": twin}, hyp=True)
    runner.run_hyp(part, t, "C06.hyp")
    return part


def subgroup_part(shard, n_v4, seed):
    """
    clause (b) applied to WHOLE sub-groups, for every assignment of the mandatory metrics of v2 and v3 (seeded ones for v4): all
    metrics of the sub-group are Not Defined (omitted, or written as such) in one vector and set to the declared equivalents in the
    other, the remaining optional metrics get a random shape.  Clause (a) likewise for the Modified metrics (v3, v4).
    """
    import random
    part = runner.Part(PID)
    rng = random.Random(runner.mix(seed, 66, shard))
    for ver in spec.VKEYS:
        V = spec.VERS[ver]
        if ver == "4":
            names = list(V.mandatory)
            bases = [dict((m, rng.choice(list(V.table[m]))) for m in names) for _ in range(n_v4)]
        else:
            bases = [b for i, b in enumerate(gen.all_bases(ver)) if i % runner.NPROC == shard]
        for base in bases:
            for prefix in V.prefixes * (40 if ver == "2" else 1):
                for g in gen.SUBGROUPS[ver]:
                    eq = [m for m in g if m in spec.ND_EQUIV[ver]]
                    mod = [m for m in g if m in spec.MODIFIED.get(ver, {})]
                    if not eq and not mod:
                        continue
                    d = dict(base)
                    for other in gen.SUBGROUPS[ver]:
                        if other is not g:
                            gen.rng_shape(rng, ver, other, d)
                    if rng.random() < 0.5:
                        for m in g:
                            d[m] = V.nd
                    d2 = dict(d)
                    clause = "b" if eq else "a"
                    for m in (eq or mod):
                        d2[m] = spec.ND_EQUIV[ver][m] if eq else base[spec.MODIFIED[ver][m]]
                    a = ref.build(prefix, d, gen.ordered(set(d), V.order, 0))
                    b = ref.build(prefix, d2, gen.ordered(set(d2), V.order, 0))
                    part.count(None, nontrivial=True, distinct=True, classes=("subgroup-sweep", "subgroup-sweep:v%s:%s" % (ver, clause)))
                    part.check("noninterference", check_noninterference, {"ver": ver, "clause": clause, "a": a, "b": b, "twin_first": bool(rng.randrange(2))})
    return part


def run(tier, t0):
    part = runner.hyp_shards("vf.props.c06", "hyp_part", 10000 if tier == "quick" else 200000)
    for p in runner.parallel("vf.props.c06", "subgroup_part", [(sh, 150 if tier == "quick" else 4000, runner.SEED) for sh in range(runner.NPROC)]):
        part.merge(p)
    rule = ("accepted vector + one clause of the statement applied to a non-empty random subset of the eligible metrics: "
            "(a) Not Defined Modified metric := base value, (b) Not Defined := declared equivalent, (c) v4 supplemental "
            "add/change/remove, (d) overridden base metric changed (an override is forced into the vector), (e) temporal/"
            "environmental metrics added/changed/removed; both vectors in independent random field orders. "
            "non-trivial = at least one metric actually changed; distinct by 64-bit hash. Plus clauses (a) and (b) applied to whole sub-groups for EVERY v2 / v3 assignment of the "
            "mandatory metrics (seeded v4 ones); half of the v3 cases score the same assignments under the other minor version first")
    required = ["subgroup-sweep:v2:b", "subgroup-sweep:v3:b", "subgroup-sweep:v3:a", "subgroup-sweep:v4:b", "subgroup-sweep:v4:a", "minor-twin-scored-first", "v2:b", "v2:e-temporal+env", "v2:e-env", "v3:a", "v3:b", "v3:d", "v3:e-temporal+env", "v3:e-env",
                "v4:a", "v4:b", "v4:c", "v4:d"]
    # every eligible metric of every clause must have been substituted at least once
    for ver in spec.VKEYS:
        V = spec.VERS[ver]
        for m in spec.MODIFIED.get(ver, {}):
            required.append("v%s:a:%s" % (ver, m))
            required.append("v%s:d:%s" % (ver, spec.MODIFIED[ver][m]))
        for m in spec.ND_EQUIV[ver]:
            required.append("v%s:b:%s" % (ver, m))
    required += ["v4:c:%s" % m for m in spec.SUPPLEMENTAL4]
    return runner.finish(part, tier, t0, rule,
                         ["a v2 score that is undefined in the original constrains nothing (statement: 'every defined score')",
                          "clause (e) is applied to v2 and v3 (v4 has a single score which threat/environmental metrics legitimately change)"],
                         required=required)
