# -*- coding: utf-8 -*-
"""
C15 - temporal_vector()/environmental_vector() are faithful and score-preserving (v2, v3).
"""
from __future__ import unicode_literals

from .. import gen, obs, ref, runner, spec
from ..runner import failure

PID = "C15"


def model_subvector(ver, group, m):
    V = spec.VERS[ver]
    out = []
    for k in V.groups[group]:
        v = m.get(k, V.nd)
        if v == V.nd and ver == "3" and k in spec.MODIFIED["3"]:
            v = m[spec.MODIFIED["3"][k]]              # Not Defined Modified metric: base metric's value
        out.append("%s:%s" % (k, v))
    return "/".join(out)


def check_subvectors(inp):
    ver, s = inp["ver"], inp["s"]
    prefix, m = ref.parse(ver, s)
    V = spec.VERS[ver]
    C = obs.classes()[ver]
    o = C(s)
    fails = []
    # an object on which other public accessors were called first (in a fixed, case-dependent order) answers the same
    from . import c18
    A = c18.accessors(ver)
    names = sorted(A)
    h = runner.h64(s)
    pre = [names[(h >> (8 * i)) % len(names)] for i in range(h % 4)]
    o_used = C(s)
    for name in pre:
        A[name](o_used)
    try:
        got = (o_used.temporal_vector(), o_used.environmental_vector())
    except BaseException as e:  # noqa
        got = "%s: %s" % (type(e).__name__, e)
    tv, ev = o.temporal_vector(), o.environmental_vector()
    if got != (tv, ev):
        fails.append(failure([tv, ev], got, note="sub-vectors of an object after %s" % pre))
    wt, we = model_subvector(ver, "temporal", m), model_subvector(ver, "environmental", m)
    if tv != wt:
        fails.append(failure(wt, tv, note="temporal_vector()"))
    if ev != we:
        fails.append(failure(we, ev, note="environmental_vector()"))
    if not isinstance(tv, type("")) or not isinstance(ev, type("")):
        return fails
    try:
        sub = obs.trivial_subclass(C)(s)            # class Sub(C): pass - an object of the library's class like any other
        got = (sub.temporal_vector(), sub.environmental_vector())
    except BaseException as e:  # noqa
        got = "%s: %s" % (type(e).__name__, e)
    if got != (wt, we):
        fails.append(failure([wt, we], got, note="instance of a subclass that adds nothing"))
    for label, x in obs.survivors(C, s):
        try:
            got = (x.temporal_vector(), x.environmental_vector())
        except BaseException as e:  # noqa
            got = "%s: %s" % (type(e).__name__, e)
        if got != (wt, we):
            fails.append(failure([wt, we], got, note=label))
            break
    re_assembled = prefix + "/".join("%s:%s" % (k, m[k]) for k in V.mandatory) + "/" + tv + "/" + ev
    k, o2 = obs.construct(ver, re_assembled)
    if k != "ok":
        fails.append(failure("base metrics + temporal_vector() + environmental_vector() is accepted", k, note=re_assembled))
    elif o2.scores() != o.scores():
        # statement: 'exactly the same scores'.  A v2 score that is None in the original stays None only if
        # the appended group is all ND, which is exactly what the sub-vector must say.
        fails.append(failure(list(o.scores()), list(o2.scores()), note="scores of %s" % re_assembled))
    return fails


CHECKS = {"subvectors": check_subvectors}


def hyp_part(n_examples, shard):
    from hypothesis import given, strategies as st
    part = runner.Part(PID)

    @runner.seeded(15, shard)
    @runner.hyp_settings(n_examples)
    @given(st.sampled_from(("2", "3")).flatmap(lambda v: st.tuples(st.just(v), gen.valid_parts(v))))
    def t(c):
        ver, (prefix, d, order) = c
        V = spec.VERS[ver]
        s = ref.build(prefix, d, order)
        partial = False
        classes = ["v" + ver]
        for g, ms in V.groups.items():
            n = sum(1 for k in ms if d.get(k, V.nd) != V.nd)
            if 0 < n < len(ms):
                partial = True
            classes.append("%s:%s" % (g, "none" if n == 0 else "all" if n == len(ms) else "partial"))
        if ver == "3" and d.get("MS", "X") != "X" and d["MS"] != d["S"]:
            classes.append("scope-overridden")
        part.count({"ver": ver, "s": s}, nontrivial=partial, classes=classes)
        part.check("subvectors", check_subvectors, {"ver": ver, "s": s}, hyp=True)
    runner.run_hyp(part, t, "C15.hyp")
    return part


def sweep_part(shard, reps, seed):
    """every assignment of the mandatory metrics of v2 and v3 (both minor versions), each sub-group of optional metrics in a random
    shape (absent / all Not Defined / all defined / mixed), official field order or a seeded permutation"""
    import random
    part = runner.Part(PID)
    rng = random.Random(runner.mix(seed, 15, shard))
    for ver in ("2", "3"):
        V = spec.VERS[ver]
        for i, base in enumerate(gen.all_bases(ver)):
            if i % runner.NPROC != shard:
                continue
            for prefix in V.prefixes * (reps * (4 if ver == "2" else 1)):
                d = dict(base)
                shapes = [gen.rng_shape(rng, ver, g, d) for g in gen.SUBGROUPS[ver]]
                s_ = ref.build(prefix, d, gen.ordered(set(d), V.order, rng.randrange(1, 1 << 20) if rng.random() < 0.5 else 0))
                part.count(None, nontrivial=("mixed" in shapes), distinct=True, classes=("base-sweep", "base-sweep:v" + ver))
                part.check("subvectors", check_subvectors, {"ver": ver, "s": s_})
    return part


def run(tier, t0):
    part = runner.hyp_shards("vf.props.c15", "hyp_part", 14000 if tier == "quick" else 320000)
    for p in runner.parallel("vf.props.c15", "sweep_part", [(sh, 1 if tier == "quick" else 12, runner.SEED) for sh in range(runner.NPROC)]):
        part.merge(p)
    rule = ("accepted v2/v3 vectors in any spelling (uniform presence of optional metrics incl. explicit Not Defined); "
            "non-trivial = vector with a partially defined temporal or environmental group; distinct by hash. Plus every v2 / v3 assignment of the mandatory metrics "
            "with every sub-group of optional metrics in a random shape; every object is also asked after 0-3 other accessor calls")
    return runner.finish(part, tier, t0, rule,
                         ["group metric lists in specification order typed into vf/spec.py"],
                         required=("v2", "v3", "temporal:none", "temporal:partial", "environmental:none", "environmental:partial", "scope-overridden", "base-sweep:v2", "base-sweep:v3"))
