# -*- coding: utf-8 -*-
"""
C15 - temporal_vector()/environmental_vector() are faithful and score-preserving (v2, v3).
"""
from __future__ import unicode_literals

from .. import gen, obs, ref, runner, spec
from ..runner import failure

PID = "C15"


def model_subvector(ver, group, m):
    V = spec.VERS[ver]
    out = []
    for k in V.groups[group]:
        v = m.get(k, V.nd)
        if v == V.nd and ver == "3" and k in spec.MODIFIED["3"]:
            v = m[spec.MODIFIED["3"][k]]              # Not Defined Modified metric: base metric's value
        out.append("%s:%s" % (k, v))
    return "/".join(out)


def check_subvectors(inp):
    ver, s = inp["ver"], inp["s"]
    prefix, m = ref.parse(ver, s)
    V = spec.VERS[ver]
    C = obs.classes()[ver]
    o = C(s)
    fails = []
    tv, ev = o.temporal_vector(), o.environmental_vector()
    wt, we = model_subvector(ver, "temporal", m), model_subvector(ver, "environmental", m)
    if tv != wt:
        fails.append(failure(wt, tv, note="temporal_vector()"))
    if ev != we:
        fails.append(failure(we, ev, note="environmental_vector()"))
    if not isinstance(tv, type("")) or not isinstance(ev, type("")):
        return fails
    try:
        sub = obs.trivial_subclass(C)(s)            # class Sub(C): pass - an object of the library's class like any other
        got = (sub.temporal_vector(), sub.environmental_vector())
    except BaseException as e:  # noqa
        got = "%s: %s" % (type(e).__name__, e)
    if got != (wt, we):
        fails.append(failure([wt, we], got, note="instance of a subclass that adds nothing"))
    for label, x in obs.survivors(C, s):
        try:
            got = (x.temporal_vector(), x.environmental_vector())
        except BaseException as e:  # noqa
            got = "%s: %s" % (type(e).__name__, e)
        if got != (wt, we):
            fails.append(failure([wt, we], got, note=label))
            break
    re_assembled = prefix + "/".join("%s:%s" % (k, m[k]) for k in V.mandatory) + "/" + tv + "/" + ev
    k, o2 = obs.construct(ver, re_assembled)
    if k != "ok":
        fails.append(failure("base metrics + temporal_vector() + environmental_vector() is accepted", k, note=re_assembled))
    elif o2.scores() != o.scores():
        # statement: 'exactly the same scores'.  A v2 score that is None in the original stays None only if
        # the appended group is all ND, which is exactly what the sub-vector must say.
        fails.append(failure(list(o.scores()), list(o2.scores()), note="scores of %s" % re_assembled))
    return fails


CHECKS = {"subvectors": check_subvectors}


def hyp_part(n_examples, shard):
    from hypothesis import given, strategies as st
    part = runner.Part(PID)

    @runner.seeded(15, shard)
    @runner.hyp_settings(n_examples)
    @given(st.sampled_from(("2", "3")).flatmap(lambda v: st.tuples(st.just(v), gen.valid_parts(v))))
    def t(c):
        ver, (prefix, d, order) = c
        V = spec.VERS[ver]
        s = ref.build(prefix, d, order)
        partial = False
        classes = ["v" + ver]
        for g, ms in V.groups.items():
            n = sum(1 for k in ms if d.get(k, V.nd) != V.nd)
            if 0 < n < len(ms):
                partial = True
            classes.append("%s:%s" % (g, "none" if n == 0 else "all" if n == len(ms) else "partial"))
        if ver == "3" and d.get("MS", "X") != "X" and d["MS"] != d["S"]:
            classes.append("scope-overridden")
        part.count({"ver": ver, "s": s}, nontrivial=partial, classes=classes)
        part.check("subvectors", check_subvectors, {"ver": ver, "s": s}, hyp=True)
    runner.run_hyp(part, t, "C15.hyp")
    return part


def run(tier, t0):
    part = runner.hyp_shards("vf.props.c15", "hyp_part", 6400 if tier == "quick" else 320000)
    rule = ("accepted v2/v3 vectors in any spelling (uniform presence of optional metrics incl. explicit Not Defined); "
            "non-trivial = vector with a partially defined temporal or environmental group; distinct by hash")
    return runner.finish(part, tier, t0, rule,
                         ["group metric lists in specification order typed into vf/spec.py"],
                         required=("v2", "v3", "temporal:none", "temporal:partial", "environmental:none", "environmental:partial", "scope-overridden"))
