# -*- coding: utf-8 -*-
"""
Driving the interactive builder in-process and an independent reference model of the dialogue.
"""
from __future__ import unicode_literals

import io
import sys

from . import spec

MAX_READS = 20000


class FakeStdin(io.TextIOBase):
    """line source that counts how many answers were consumed; EOF when the script is exhausted"""

    def __init__(self, answers, cycle=False, tty=False):
        self.answers = list(answers)
        self.cycle = cycle
        self.tty = tty
        self.consumed = 0
        self.eof_hit = False

    def readable(self):
        return True

    def readline(self, *a):
        if self.consumed >= MAX_READS:
            self.eof_hit = True
            return ""
        if self.cycle:
            r = self.answers[self.consumed % len(self.answers)]
        elif self.consumed >= len(self.answers):
            self.eof_hit = True
            return ""
        else:
            r = self.answers[self.consumed]
        self.consumed += 1
        return r + "\n"

    def read(self, *a):
        return self.readline()

    def isatty(self):
        return self.tty


class TtyOut(io.StringIO):
    """captured stdout that claims to be a terminal"""

    def isatty(self):
        return True


def verkey(version):
    if version == 2:
        return "2"
    if 3.0 <= version < 4.0:
        return "3"
    if version == 4.0:
        return "4"
    raise ValueError(version)


def expected_prefix(version):
    """statement: 'the version-prefixed vector'; version 3 (int) == 3.0"""
    if version == 2:
        return ""
    if version == 3.0:
        return "CVSS:3.0/"
    if version == 3.1:
        return "CVSS:3.1/"
    if version == 4.0:
        return "CVSS:4.0/"
    raise ValueError(version)


def run_builder(version, all_metrics, no_colors, answers, cycle=False, tty=False):
    """-> dict(kind='ret'|'eof'|'exc', value=..., consumed=n, out=str); tty=True: both streams claim to be a terminal"""
    import cvss
    import cvss.interactive as it
    fake = FakeStdin(answers, cycle=cycle, tty=tty)
    old = (sys.stdin, sys.stdout)
    out = TtyOut() if tty else io.StringIO()
    sys.stdin, sys.stdout = fake, out
    saved = getattr(it, "string_input", None)
    try:
        try:
            r = cvss.ask_interactively(version, all_metrics, no_colors)
            res = {"kind": "ret", "value": r}
        except EOFError:
            res = {"kind": "eof", "value": None}
        except BaseException as e:  # noqa
            res = {"kind": "exc", "value": "%s: %s" % (type(e).__name__, str(e)[:200])}
    finally:
        sys.stdin, sys.stdout = old
        if saved is not None:
            it.string_input = saved
    res["consumed"] = fake.consumed
    res["out"] = out.getvalue()
    return res


def legal_answer(ver, metric, answer):
    """reference semantics of one answer: -> legal value selected, or None (question is repeated)"""
    V = spec.VERS[ver]
    a = answer.strip()
    if a == "":
        return V.nd if V.nd in V.values[metric] else None
    up = a.upper()
    for v in V.table[metric]:
        if v.upper() == up:
            return v
    return None


def model(ver, order, answers):
    """-> (list of (metric, value) or None when the answers run out, number of answers consumed)"""
    i = 0
    out = []
    for m in order:
        while True:
            if i >= len(answers):
                return None, i
            v = legal_answer(ver, m, answers[i])
            i += 1
            if v is not None:
                out.append((m, v))
                break
    return out, i


_ORDER_CACHE = {}


def probe_order(version, all_metrics):
    """
    asking order of the tree under test, discovered by answering every question with a cycle through
    all legal values of the version (used to BUILD inputs, never to judge them)
    """
    key = (repr(version), bool(all_metrics))
    if key in _ORDER_CACHE:
        return _ORDER_CACHE[key]
    ver = verkey(version)
    V = spec.VERS[ver]
    universe = []
    for m in V.order:
        for v in V.table[m]:
            if v not in universe:
                universe.append(v)
    universe.append("")
    r = run_builder(version, all_metrics, True, universe, cycle=True)
    order = None
    if r["kind"] == "ret" and isinstance(r["value"], type("")):
        body = r["value"][len(expected_prefix(version)):]
        order = [f.split(":")[0] for f in body.split("/")]
    _ORDER_CACHE[key] = order
    return order


VERSIONS = (2, 3, 3.0, 3.1, 4, 4.0)

# characters whose upper()/lower()/casefold() never produce ASCII letters unless they are ASCII themselves
COMMAND_WORDS = ("done", "end", "finish", "finished", "stop", "quit", "exit", "q", "bye", "abort", "cancel", "skip", "next", "pass", "back", "prev",
                 "previous", "undo", "redo", "again", "repeat", "restart", "reset", "help", "h", "?", "??", "info", "list", "show", "all", "any", "none", "null",
                 "nil", "default", "defaults", "same", "ditto", "unknown", "unset", "empty", "blank", "n/a", "na", "-", "--", "*", ".", "..", "...", "ok", "yes",
                 "no", "y", "true", "false", "on", "off", "0", "1", "first", "last", "max", "min", "highest", "lowest", "worst", "best", "random", "auto",
                 "eof", "^d", "^c", "\\q", ":q", ":wq", "save", "print", "vector", "score", "json", "version", "base", "temporal", "environmental", "threat",
                 "supplemental", "not defined", "notdefined", "not_defined", "undefined", "nd", "x")


SAFE_JUNK = "abcdefghijklmnopqrstuvwxyzABCDEFGHIJKLMNOPQRSTUVWXYZ0123456789 \t:/.-_?!é☃ж"


def script_strategy(version, all_metrics, order, complete=None):
    """
    Hypothesis strategy for an answer script given the asking order (official or probed):
    per question 0..3 rejected-looking answers then an accepted-looking one; optionally truncated.
    -> (answers, meta) where meta counts retries / empties
    """
    from hypothesis import strategies as st
    ver = verkey(version)
    V = spec.VERS[ver]
    allvals = sorted(set(v for vals in V.table.values() for v in vals))

    def spell(v):
        # str.strip() removes ALL white space: vertical tab, form feed, the \\x1c-\\x1f separators, NEL, CR, Unicode spaces
        return st.sampled_from([v, v.lower(), v.upper(), v.title(), v.swapcase(), " " + v, v + " ", "\t" + v.lower() + "  ",
                                v + "\r", "\x0b" + v, v + "\x0c", "\x1c" + v + "\x1f", v.lower() + "\x85", "\u2003" + v, v + "\u2028"])

    @st.composite
    def s(draw):
        answers = []
        retries = empties = 0
        for m in order:
            n_bad = draw(st.sampled_from((0, 0, 0, 1, 1, 2, 3)))
            for _ in range(n_bad):
                k = draw(st.integers(0, 7))
                if k == 7:
                    # a legal value with white space INSIDE, or with one letter replaced by a compatibility look-alike (full-width,
                    # mathematical, circled, superscript ... forms that NFKC folds to the letter): not the value
                    from . import gen
                    val = draw(st.sampled_from(V.table[m]))
                    j = draw(st.integers(0, len(val)))
                    if draw(st.booleans()) and len(val) > 1:
                        j = min(max(1, j), len(val) - 1)
                        a = val[:j] + draw(st.sampled_from((" ", "  ", "\t", "\u00a0", "\u2003", "\x1f", "\u200b", "-", "_", "."))) + val[j:]
                        if draw(st.booleans()):
                            a = a.lower()
                    else:
                        j = min(j, len(val) - 1)
                        alts = gen.confusables().get(val[j]) or gen.confusables().get(val[j].upper()) or ["\uff2e"]
                        a = val[:j] + draw(st.sampled_from(list(alts))) + val[j + 1:]
                elif k == 5:
                    # the answer written the way a FIELD is written, with this or another metric's name, and a few relatives:
                    # what a "paste the whole field" convenience would have to get exactly right
                    val = draw(st.sampled_from(V.table[m]))
                    other = draw(st.sampled_from(list(V.order)))
                    a = draw(st.sampled_from((m + ":" + val, other + ":" + val, other.lower() + ":" + val.lower(), m + "=" + val, other + "=" + val,
                                              m + " " + val, other + ":" + draw(st.sampled_from(V.table[other])), val + ":" + val, ":" + val, val + ":",
                                              m + ":" + val + "/", "/" + val, m + "/" + val, other + ": " + val, m, other, m + ":", val + " " + val,
                                              val + "," + val, val + "/" + val, "(" + val + ")", "[" + val + "]", "'" + val + "'", '"' + val + '"',
                                              val + ".", val + "!", "-" + val, "+" + val, "=" + val, val + "=", "#" + val, val + " #", val + " # comment",
                                              val + ";", val + "\\", "\\" + val)))
                elif k == 6:
                    # words that a dialogue might be taught to understand
                    from . import gen
                    a = draw(st.sampled_from(COMMAND_WORDS)) if draw(st.booleans()) else draw(st.sampled_from(gen.tree_constants()))
                    a = draw(st.sampled_from((a, a.lower(), a.upper(), a.title(), " " + a)))
                elif k == 0 and draw(st.booleans()):
                    # what a terminal sends for cursor keys, bracketed paste, backspace ...: part of the answer, hence not legal
                    val = draw(st.sampled_from(V.table[m]))
                    a = draw(st.sampled_from(("\x1b[D" + val, val + "\x1b[1;5C", "\x1b[A", "\x1b[200~" + val + "\x1b[201~", val + "\x08", "\x7f" + val,
                                              "\x00" + val, val + "\x1b", "\x1bO" + val, "^[[D" + val, val + "\\n", val + "&#10;", val + "\udcff", "\udcc3" + val, "\udc80", "%" + "%02X" % ord(val[0]) + val[1:])))
                elif k == 0:
                    a = draw(st.text(alphabet=SAFE_JUNK, max_size=6))
                elif k == 1:
                    a = draw(st.sampled_from(allvals))           # legal for some metric, maybe this one
                elif k == 2:
                    a = draw(st.sampled_from(["", " ", "\t"]))   # empty: illegal for mandatory metrics
                elif k == 3:
                    a = draw(st.sampled_from(V.table[m])) + draw(st.sampled_from(["X", "1", "?", "/", ":"]))
                else:
                    a = draw(st.sampled_from(["ND", "X", "nd", "x", "Not Defined", "0", "none", "Network", "High", "Low", "None", "Required",
                                              "Changed", "Partial", "Complete", "Not", "NET", "HI", "Y", "yes", "no", "1", "2"]))
                answers.append(a)
                retries += 1
            if V.nd in V.values[m] and draw(st.integers(0, 3)) == 0:
                answers.append(draw(st.sampled_from(["", " ", "  "])))
                empties += 1
            else:
                answers.append(draw(spell(draw(st.sampled_from(V.table[m])))))
        cut = None
        if complete is False or (complete is None and draw(st.integers(0, 9)) == 0):
            cut = draw(st.integers(0, max(0, len(answers) - 1)))
            answers = answers[:cut]
        return answers, {"retries": retries, "empties": empties, "truncated": cut is not None}
    return s()
