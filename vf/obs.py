# -*- coding: utf-8 -*-
"""Helpers to call the tree under test and collect observables."""
from __future__ import unicode_literals


def classes():
    import cvss
    return {"2": cvss.CVSS2, "3": cvss.CVSS3, "4": cvss.CVSS4}


def errors(ver):
    """-> (VersionError, Malformed, Mandatory, RHMalformed, RHScoreDoesNotMatch, CVSSError)"""
    import cvss.exceptions as ex
    return (getattr(ex, "CVSS%sError" % ver), getattr(ex, "CVSS%sMalformedError" % ver),
            getattr(ex, "CVSS%sMandatoryError" % ver), getattr(ex, "CVSS%sRHMalformedError" % ver),
            getattr(ex, "CVSS%sRHScoreDoesNotMatch" % ver), ex.CVSSError)


def construct(ver, s, rh=False):
    """-> ("ok", obj) | ("malformed"|"mandatory"|"rh-malformed"|"rh-mismatch"|"other-cvss:<Name>"|"foreign:<Name>", exc)"""
    C = classes()[ver]
    VE, Mal, Man, RHM, RHS, Base = errors(ver)
    try:
        o = C.from_rh_vector(s) if rh else C(s)
        return "ok", o
    except BaseException as e:  # noqa  (the property says: for no string whatsoever ...)
        if isinstance(e, (KeyboardInterrupt, SystemExit, MemoryError)) and not isinstance(e, Base):
            return "foreign:%s" % type(e).__name__, e
        if isinstance(e, Mal):
            kind = "malformed"
        elif isinstance(e, Man):
            kind = "mandatory"
        elif isinstance(e, RHM):
            kind = "rh-malformed"
        elif isinstance(e, RHS):
            kind = "rh-mismatch"
        elif isinstance(e, Base):
            kind = "other-cvss:%s" % type(e).__name__
        else:
            kind = "foreign:%s" % type(e).__name__
        if kind in ("malformed", "mandatory", "rh-malformed", "rh-mismatch") and not (isinstance(e, VE) and isinstance(e, Base)):
            kind = "outside-hierarchy:%s" % type(e).__name__
        return kind, e


def observables(ver, o, with_hash=True):
    """everything C05/C07 call 'outputs' of an object (not as_json)"""
    d = {"scores": list(o.scores()), "severities": list(o.severities()), "rh": o.rh_vector()}
    if ver == "2":
        d["clean"] = o.clean_vector()
    else:
        d["clean"] = o.clean_vector()
        d["clean_noprefix"] = o.clean_vector(output_prefix=False)
    if ver in ("2", "3"):
        d["temporal_vector"] = o.temporal_vector()
        d["environmental_vector"] = o.environmental_vector()
    if ver == "4":
        d["severity_attr"] = o.severity
    if with_hash:
        d["hash"] = hash(o)
    return d


def json_forms(o):
    out = {}
    for sort in (False, True):
        for minimal in (False, True):
            out["sort=%s,minimal=%s" % (sort, minimal)] = list(o.as_json(sort=sort, minimal=minimal).items())
    return out


CLONERS = ("copy.copy", "copy.deepcopy", "pickle-0", "pickle-2", "pickle-highest")


def clone(o, how):
    """a copy made through the object protocol, or None when that way of copying is not available for the object
    (no statement promises that objects can be copied; what they promise holds for every object that exists)"""
    import copy
    import pickle
    try:
        if how == "copy.copy":
            return copy.copy(o)
        if how == "copy.deepcopy":
            return copy.deepcopy(o)
        proto = {"pickle-0": 0, "pickle-2": 2, "pickle-highest": pickle.HIGHEST_PROTOCOL}[how]
        return pickle.loads(pickle.dumps(o, proto))
    except Exception:  # noqa
        return None


CARRY_PROG = r"""
import base64, json, pickle, sys
import cvss
C = {"2": cvss.CVSS2, "3": cvss.CVSS3, "4": cvss.CVSS4}
out = []
for ver, s, warm in json.load(sys.stdin):
    try:
        o = C[ver](s)
        for w in warm:
            if w == "hash": hash(o)
            elif w == "eq": o == C[ver](s)
            elif w == "clean": o.clean_vector()
            elif w == "rh": o.rh_vector()
            elif w == "json": o.as_json(sort=True, minimal=True)
            elif w == "scores": (o.scores(), o.severities())
            elif w == "set": len({o, C[ver](s)})
        out.append([base64.b64encode(pickle.dumps(o, p)).decode("ascii") for p in (0, 2, pickle.HIGHEST_PROTOCOL)])
    except Exception as e:
        out.append(None)
sys.stdout.write(json.dumps(out))
"""


def carried(items, hashseed):
    """
    objects that were built and used in ANOTHER process (its own string-hash salt: PYTHONHASHSEED=<hashseed>) and arrive here
    as pickles - what a task queue, a cache server or multiprocessing does.  items: [(ver, string, [warm-up calls])].
    -> for every item a list of objects (one per pickle protocol), or None when the object cannot be pickled there
    """
    import base64
    import json
    import os
    import pickle
    import subprocess
    import sys
    env = dict(os.environ, PYTHONHASHSEED=str(hashseed), PYTHONPATH=os.environ.get("VERIF_REPO", "/repo"), PYTHONDONTWRITEBYTECODE="1")
    p = subprocess.run([sys.executable, "-c", CARRY_PROG], input=json.dumps(items).encode("utf-8"), stdout=subprocess.PIPE, stderr=subprocess.PIPE, env=env)
    if p.returncode != 0:
        return [None] * len(items)
    out = []
    for blobs in json.loads(p.stdout.decode("utf-8")):
        if blobs is None:
            out.append(None)
            continue
        try:
            out.append([pickle.loads(base64.b64decode(b)) for b in blobs])
        except Exception:  # noqa  (no statement promises that objects can be pickled)
            out.append(None)
    return out


_SUB = {}


def trivial_subclass(C):
    """class Sub(C): pass - nothing added, nothing overridden; its instances ARE objects of the library's class"""
    if C not in _SUB:
        _SUB[C] = type(str("Sub" + C.__name__), (C,), {})
    return _SUB[C]


def survivors(C, s):
    """
    objects whose sibling has been destroyed: (label, object) for the copy that outlives its original and the original that
    outlives its copy (copy.copy and deepcopy).  What an object answers must not depend on the lifetime of another one.
    """
    import copy
    out = []
    for how, f in (("copy.copy", copy.copy), ("copy.deepcopy", copy.deepcopy)):
        try:
            o = C(s)
            c = f(o)
            del o                      # reference counting finalises it here and now
            out.append(("%s outliving its original" % how, c))
            o = C(s)
            c = f(o)
            del c
            out.append(("original outliving its %s" % how, o))
        except Exception:  # noqa  (copying not available: no statement promises it)
            pass
    return out


class PlainStr(str):
    """a str subclass that adds and overrides nothing (what HTML/XML libraries, numpy, markupsafe ... hand out): a Python str value"""
    __slots__ = ()

