# -*- coding: utf-8 -*-
"""
Sensitivity self-test: every mutant of vf.mutants is applied to a scratch copy of the tree under test
(outside /repo and /verif); the quick tier of each property named by the mutant must exit 1 with a
VIOLATION line, its replay file must reproduce on the mutant and pass on the unchanged tree.

    vcheck selftest [--tests] [--jobs N] [--tier quick|thorough] [--out FILE] [name-or-property ...]
    vcheck selftest --seeded         run the checks named in /verif/seeded/*/meta.json against those patches
    vcheck selftest --export         write the mutants as patches to /verif/mutants/
"""
from __future__ import print_function, unicode_literals

import difflib
import json
import os
import re
import shutil
import subprocess
import sys
import tempfile
import time
from concurrent.futures import ThreadPoolExecutor

from . import mutants, runner

VCHECK = os.path.join(runner.HOME, "vcheck")
ORIG = os.path.abspath(os.environ.get("VERIF_SELFTEST_BASE", "/repo"))


def baseline_ids():
    with open("/root/.vp/BASELINE.json") as f:
        b = json.load(f)
    out = []
    for t in b["stable_pass"]:
        mod, rest = t.split("::", 1) if "::" in t else (t, "")
        parts = mod.split(".")
        out.append("/".join(parts[:-1]) + ".py::" + parts[-1] + "::" + rest)
    return out


def make_copy():
    d = tempfile.mkdtemp(prefix="vfmut")
    for name in ("cvss", "tests"):
        shutil.copytree(os.path.join(ORIG, name), os.path.join(d, name), ignore=shutil.ignore_patterns("__pycache__", "*.pyc"))
    return d


def apply_edits(d, edits):
    for path, old, new in edits:
        p = os.path.join(d, path)
        with open(p) as f:
            s = f.read()
        if s.count(old) != 1:
            raise RuntimeError("edit does not apply exactly once (%d) in %s: %r" % (s.count(old), path, old[:60]))
        with open(p, "w") as f:
            f.write(s.replace(old, new))


def diff_of(edits):
    out = []
    files = {}
    for path, old, new in edits:
        if path not in files:
            with open(os.path.join(ORIG, path)) as f:
                files[path] = [f.read(), None]
            files[path][1] = files[path][0]
        if files[path][1].count(old) != 1:
            raise RuntimeError("edit does not apply exactly once in %s: %r" % (path, old[:60]))
        files[path][1] = files[path][1].replace(old, new)
    for path, (a, b) in sorted(files.items()):
        out.extend(difflib.unified_diff(a.splitlines(True), b.splitlines(True), "a/" + path, "b/" + path))
    return "".join(out)


def run_tests(d):
    ids = baseline_ids()
    p = subprocess.run(["/venv/bin/python", "-m", "pytest", "-q", "-p", "no:cacheprovider", "-x", "--timeout=300"] + ids,
                       cwd=d, stdout=subprocess.PIPE, stderr=subprocess.STDOUT, env=dict(os.environ, PYTHONPATH=d, PYTHONDONTWRITEBYTECODE="1"))
    tail = p.stdout.decode("utf-8", "replace").strip().split("\n")[-1]
    return p.returncode == 0, tail


def vcheck(args, repo, out, seed=None):
    env = dict(os.environ, VERIF_REPO=repo, VERIF_OUT=out)
    if seed is not None:
        env["VERIF_SEED"] = str(seed)
    p = subprocess.run([VCHECK] + args, stdout=subprocess.PIPE, stderr=subprocess.STDOUT, env=env, cwd=runner.HOME)
    return p.returncode, p.stdout.decode("utf-8", "replace")


HARVEST = False


def harvest(pid, name, replay):
    """keep a replay that fails on the changed tree and passes on the unchanged one as a saved regression input"""
    d = os.path.join(runner.HOME, "regress", pid)
    os.makedirs(d, exist_ok=True)
    try:
        if os.path.getsize(replay) > 200000:
            return
        with open(replay) as f:
            case = json.load(f)
        case["origin"] = name
        with open(os.path.join(d, name + ".json"), "w") as f:
            json.dump(case, f, indent=1, sort_keys=True)
    except (OSError, ValueError):
        pass


def test_mutant(m, with_tests, tier_override=None):
    t0 = time.time()
    res = {"name": m["name"], "props": {}, "realistic": None}
    try:
        d = make_copy()
    except Exception as e:
        res["error"] = str(e)
        return res
    try:
        try:
            apply_edits(d, m["edits"])
        except RuntimeError as e:
            res["error"] = str(e)
            return res
        if with_tests:
            ok, tail = run_tests(d)
            res["realistic"] = ok
            res["tests"] = tail
        out = os.path.join(d, "_out")
        for pid in m["props"]:
            tier = tier_override or m.get("tier", "quick")
            if tier == "none":
                res["props"][pid] = {"skipped": "documented equivalent / not observable"}
                continue
            rc, text = vcheck([pid, tier], d, out)
            r = {"rc": rc, "tier": tier}
            mm = re.search(r"VIOLATION property=%s replay=(\S+)" % pid, text)
            if rc == 1 and mm:
                replay = mm.group(1)
                rc_m, _ = vcheck([pid, "replay", replay], d, out)
                rc_o, _ = vcheck([pid, "replay", replay], ORIG, out)
                r.update({"caught": True, "replay_on_mutant": rc_m, "replay_on_original": rc_o,
                          "first": text[text.index("VIOLATION"):][:500]})
                if HARVEST and rc_m == 1 and rc_o == 0:
                    harvest(pid, m["name"], replay)
            else:
                r.update({"caught": False, "tail": text[-600:]})
            res["props"][pid] = r
    finally:
        shutil.rmtree(d, ignore_errors=True)
    res["wall_s"] = round(time.time() - t0, 1)
    return res


def export():
    d = os.path.join(runner.HOME, "mutants")
    os.makedirs(d, exist_ok=True)
    for m in mutants.M:
        with open(os.path.join(d, m["name"] + ".patch"), "w") as f:
            f.write("# mutant %s: expected to be caught by %s (tier %s) %s\n" % (m["name"], ",".join(m["props"]), m["tier"], m["note"]))
            f.write(diff_of(m["edits"]))
    print("exported %d patches to %s" % (len(mutants.M), d))
    return 0


def seeded(args):
    """run the registered checks against the kept seeded changes of /verif/seeded/<id>/"""
    base = os.path.join(runner.HOME, "seeded")

    class Rows(list):
        def append(self, r):                       # rows appear as they are produced (a full run takes hours)
            print("%-40s %s" % r)
            sys.stdout.flush()
    rows = Rows()
    for name in sorted(os.listdir(base)) if os.path.isdir(base) else []:
        if args and not any(a in name for a in args):
            continue
        meta_p = os.path.join(base, name, "meta.json")
        patch_p = os.path.join(base, name, "patch.diff")
        if not os.path.exists(meta_p) or not os.path.exists(patch_p):
            continue
        with open(meta_p) as f:
            meta = json.load(f)
        d = make_copy()
        try:
            p = subprocess.run(["patch", "-p1", "-s", "-i", patch_p], cwd=d, stdout=subprocess.PIPE, stderr=subprocess.STDOUT)
            if p.returncode != 0:
                rows.append((name, "patch does not apply: " + p.stdout.decode()[-200:]))
                continue
            ok, tail = run_tests(d)
            rows.append((name, "baseline tests with the patch: %s (%s)" % ("pass" if ok else "FAIL", tail[:60])))
            demo = os.path.join(base, name, "demo.py")
            if os.path.exists(demo):
                def put_demo(target):
                    # the agents' demos name their worktree (/tmp/wt-Cnn) in paths and assertions: point them at the copy
                    with open(demo) as f:
                        text = f.read()
                    with open(os.path.join(target, "demo.py"), "w") as f:
                        f.write(re.sub(r"/tmp/wt-C\d\d", target, text))
                put_demo(d)
                env = dict(os.environ, PYTHONPATH=d, PYTHONDONTWRITEBYTECODE="1")
                r1 = subprocess.run(["/venv/bin/python", "demo.py"] + meta.get("demo_args", []), cwd=d, env=env, stdout=subprocess.PIPE, stderr=subprocess.STDOUT).returncode
                d0 = make_copy()
                try:
                    put_demo(d0)
                    r0 = subprocess.run(["/venv/bin/python", "demo.py"] + meta.get("demo_args", []), cwd=d0, env=dict(env, PYTHONPATH=d0), stdout=subprocess.PIPE, stderr=subprocess.STDOUT).returncode
                finally:
                    shutil.rmtree(d0, ignore_errors=True)
                rows.append((name, "demo.py: exit %d with the patch, exit %d without -> %s" % (r1, r0, "confirmed" if r1 != 0 and r0 == 0 else "NOT CONFIRMED")))
            out = os.path.join(d, "_out")
            for pid in meta.get("checks", [meta.get("property")]):
                for tier in meta.get("tiers", ["quick"]):
                    rc, text = vcheck([pid, tier], d, out)
                    rows.append((name, "%s %s -> rc=%d %s" % (pid, tier, rc, "CAUGHT" if rc == 1 and "VIOLATION property=%s" % pid in text else "missed")))
                    mm = re.search(r"VIOLATION property=%s replay=(\S+)" % pid, text)
                    if HARVEST and rc == 1 and mm:
                        rp = mm.group(1)
                        if vcheck([pid, "replay", rp], d, out)[0] == 1 and vcheck([pid, "replay", rp], ORIG, out)[0] == 0:
                            harvest(pid, "seeded-" + name, rp)
        finally:
            shutil.rmtree(d, ignore_errors=True)
    return 0


def main(argv):
    global HARVEST
    if "--harvest" in argv:
        HARVEST = True
        os.environ["VERIF_NO_REGRESS"] = "1"      # the saved inputs themselves must not mask what the generators find
    if "--export" in argv:
        return export()
    if "--seeded" in argv:
        return seeded([a for a in argv if not a.startswith("--")])
    with_tests = "--tests" in argv
    jobs = 2
    tier = None
    outfile = None
    sel = []
    it = iter(argv)
    for a in it:
        if a == "--jobs":
            jobs = int(next(it))
        elif a == "--tier":
            tier = next(it)
        elif a == "--out":
            outfile = next(it)
        elif not a.startswith("--"):
            sel.append(a)
    chosen = [m for m in mutants.M if not sel or any(s == m["name"] or m["name"].startswith(s.lower() + "-") or s.upper() in m["props"] for s in sel)]
    results = []
    with ThreadPoolExecutor(jobs) as ex:
        for r in ex.map(lambda m: test_mutant(m, with_tests, tier), chosen):
            results.append(r)
            line = "%-36s" % r["name"]
            if "error" in r:
                line += " ERROR " + r["error"]
            else:
                for pid, x in r["props"].items():
                    if "skipped" in x:
                        line += " %s:skipped" % pid
                    elif x["caught"]:
                        ok = x["replay_on_mutant"] == 1 and x["replay_on_original"] == 0
                        line += " %s:CAUGHT%s" % (pid, "" if ok else "(replay m=%s o=%s)" % (x["replay_on_mutant"], x["replay_on_original"]))
                    else:
                        line += " %s:MISSED(rc=%s)" % (pid, x["rc"])
                if r["realistic"] is not None:
                    line += "  tests:%s" % ("pass" if r["realistic"] else "FAIL(" + r.get("tests", "")[:40] + ")")
            print(line)
            sys.stdout.flush()
    if outfile:
        with open(outfile, "w") as f:
            json.dump(results, f, indent=1, sort_keys=True)
    missed = [r["name"] for r in results if "error" in r or any((not x.get("caught")) and "skipped" not in x for x in r["props"].values())]
    print("%d mutants, %d with a miss or error: %s" % (len(results), len(missed), missed))
    return 0 if not missed else 1
