# -*- coding: utf-8 -*-
"""
Sensitivity mutants: small realistic changes to the tree under test, each of which breaks one of the
listed properties.  A mutant is (name, [property ids expected to catch it], [(file, old, new), ...]).
`vcheck selftest` applies each to a scratch copy and expects the named quick checks to report a
VIOLATION.  `python -m vf.mutants export` writes them as patches under /verif/mutants/.
Strings must match the pinned tree exactly once.
"""
from __future__ import unicode_literals

M = []


def mut(name, props, *edits, **kw):
    M.append({"name": name, "props": list(props), "edits": list(edits), "tier": kw.get("tier", "quick"),
              "note": kw.get("note", "")})


# ---------------------------------------------------------------- C01
mut("c01-mpr-base-scope", ["C01", "C06"],
    ("cvss/cvss3.py", 'abbreviation == "MPR" and self.modified_scope == "C"', 'abbreviation == "MPR" and self.scope == "C"'))
mut("c01-cap", ["C01"], ("cvss/cvss3.py", '            D("0.915"),\n        )', '            D("0.95"),\n        )'))
mut("c01-roundup-halfup", ["C01"],
    ("cvss/cvss3.py", "from decimal import ROUND_CEILING\n", "from decimal import ROUND_HALF_UP as ROUND_CEILING\n"))
mut("c01-formulas-swapped", ["C01"], ("cvss/cvss3.py", "        if self.minor_version == 0:\n            self.compute_modified_isc_30()",
                                      "        if self.minor_version == 1:\n            self.compute_modified_isc_30()"))
mut("c01-weight", ["C01"], ("cvss/constants3.py", '"PR": {"N": D("0.85"), "L": D("0.62"), "H": D("0.27")},', '"PR": {"N": D("0.85"), "L": D("0.62"), "H": D("0.28")},'))
mut("c01-ms-x-not-inherited", ["C01", "C05"], ("cvss/cvss3.py", 'if self.modified_scope in [None, "X"]:', "if self.modified_scope in [None]:"))
mut("c01-modified-esc-uses-base", ["C01", "C06"], ("cvss/cvss3.py", '            * self.get_value("MAV")\n', '            * self.get_value("AV")\n'))
# ---------------------------------------------------------------- C02
mut("c02-lookup-entry", ["C02"], ("cvss/constants4.py", '("000011", 9.5),', '("000011", 9.4),'))
mut("c02-depth", ["C02"], ("cvss/constants4.py", '("eq1", OrderedDict([(0, 1), (1, 4), (2, 5)])),', '("eq1", OrderedDict([(0, 1), (1, 5), (2, 5)])),'))
mut("c02-cr-default", ["C02", "C06"], ('cvss/cvss4.py', '        if metric == "CR" and selected == "X":\n            return "H"', '        if metric == "CR" and selected == "X":\n            return "M"'))
mut("c02-eq3eq6-next-lower", ["C02"],
    ("cvss/cvss4.py", '''        elif eq3_val == 1 and eq6_val == 0:
            eq3eq6_next_lower_macro = "".join(
                str(val) for val in [eq1_val, eq2_val, eq3_val, eq4_val, eq5_val, eq6_val + 1]
            )''', '''        elif eq3_val == 1 and eq6_val == 0:
            eq3eq6_next_lower_macro = "".join(
                str(val) for val in [eq1_val, eq2_val, eq3_val + 1, eq4_val, eq5_val, eq6_val]
            )'''))
mut("c02-mat-override-ignored", ["C02"], ("cvss/cvss4.py", '        if "M" + metric in self.metrics:\n', '        if "M" + metric in self.metrics and metric != "AT":\n'))
mut("c02-final-rounding-builtin", ["C02"], ("cvss/cvss4.py", '    return float(D(x + EPSILON).quantize(D("0.1"), rounding=ROUND_HALF_UP))', "    return round(x, 1)"),
    note="round-half-even on the binary value instead of half-up with epsilon")
# ---------------------------------------------------------------- C03
mut("c03-1176", ["C03"], ("cvss/cvss2.py", 'f_impact = D("0") if impact == D("0") else D("1.176")', 'f_impact = D("0") if impact == D("0") else D("1.175")'))
mut("c03-half-even", ["C03"], ("cvss/cvss2.py", "from decimal import ROUND_HALF_UP\n", "from decimal import ROUND_HALF_EVEN as ROUND_HALF_UP\n"))
mut("c03-adjusted-impact-cap", ["C03"], ("cvss/cvss2.py", '            D("10"),\n            D("10.41")', '            D("11"),\n            D("10.41")'))
mut("c03-none-rule-any", ["C03"], ("cvss/cvss2.py", 'if all(self.metrics.get(a, "ND") == "ND" for a in ENVIRONMENTAL_METRICS):', 'if any(self.metrics.get(a, "ND") == "ND" for a in ENVIRONMENTAL_METRICS):'))
mut("c03-negative-zero", ["C03", "C09"], ("cvss/cvss2.py", 'self.base_score = max(D("0.0"), self.base_score_equation())', 'self.base_score = max(self.base_score_equation(), D("0.0"))'))
mut("c03-env-from-unadjusted-temporal", ["C03"], ("cvss/cvss2.py", "temporal_score_adjusted = self.temporal_score_equation(adjusted_impact=True)", "temporal_score_adjusted = self.temporal_score_equation(adjusted_impact=False)"))
# ---------------------------------------------------------------- C04
mut("c04-duplicate-check-removed", ["C04"], ("cvss/cvss3.py", "                    if metric in self.metrics:\n                        raise CVSS3MalformedError('Duplicate", "                    if False:\n                        raise CVSS3MalformedError('Duplicate"))
mut("c04-trailing-slash-accepted", ["C04"],
    ("cvss/cvss2.py", '        if self.vector.endswith("/"):\n            raise CVSS2MalformedError', '        if False:\n            raise CVSS2MalformedError'),
    ("cvss/cvss2.py", '        fields = self.vector.split("/")\n', '        fields = self.vector.rstrip("/").split("/")\n'))
mut("c04-fields-stripped", ["C04"], ("cvss/cvss4.py", '                metric, value = field.split(":")\n', '                metric, value = field.strip().split(":")\n'))
mut("c04-upper-cased", ["C04"], ("cvss/cvss3.py", '                metric, value = field.split(":")\n', '                metric, value = field.upper().split(":")\n'))
mut("c04-any-minor-version", ["C04"], ("cvss/cvss3.py", '        elif self.vector.startswith("CVSS:3.1/"):', '        elif self.vector.startswith("CVSS:3."):'))
mut("c04-keyerror-leak", ["C04"], ("cvss/cvss4.py", "            if metric not in METRICS_VALUE_NAMES:\n", "            if False:\n"))
mut("c04-v4-mandatory-lenient", ["C04"], ("cvss/cvss4.py", "        if missing:\n            raise CVSS4MandatoryError", "        if len(missing) > 1:\n            raise CVSS4MandatoryError"))
mut("c04-v2-value-prefix", ["C04"], ("cvss/cvss2.py", "                if value in METRICS_VALUES[metric]:\n", "                if value in METRICS_VALUES[metric] or value[:1] in METRICS_VALUES[metric]:\n"),
    note="accepts AV:Nx as AV:N? no: stores the raw value -> KeyError later or acceptance")
# ---------------------------------------------------------------- C05
mut("c05-ir-x-dropped", ["C05", "C02"], ("cvss/cvss4.py", '        if metric == "IR" and selected == "X":\n            return "H"\n\n', ""))
mut("c05-clean-vector-input-order", ["C05", "C07"],
    ("cvss/cvss3.py", "        for metric in METRICS_ABBREVIATIONS:\n            if metric in self.original_metrics:", "        for metric in self.original_metrics:\n            if metric in METRICS_ABBREVIATIONS:"))
mut("c05-hash-raw-string", ["C05", "C07"], ("cvss/cvss2.py", "        return hash(self.clean_vector())", "        return hash(self.vector)"))
mut("c05-explicit-nd-defines-group", ["C05", "C03"], ("cvss/cvss2.py", 'if all(self.metrics.get(a, "ND") == "ND" for a in TEMPORAL_METRICS):', "if all(a not in self.metrics for a in TEMPORAL_METRICS):"))
# ---------------------------------------------------------------- C06
mut("c06-supplemental-leaks", ["C06", "C02"], ("cvss/cvss4.py", "        value = CVSS_LOOKUP_GLOBAL[macroVector]\n", '        value = CVSS_LOOKUP_GLOBAL[macroVector]\n        if self.metrics.get("AU") == "Y" and value <= 9.8:\n            value = value + 0.2\n'))
mut("c06-e-x-weight", ["C06", "C01"], ("cvss/constants3.py", '"E": {"X": D("1"), "H": D("1"),', '"E": {"X": D("0.94"), "H": D("1"),'))
mut("c06-v4-threat-default", ["C06", "C02"], ("cvss/cvss4.py", '        if metric == "E" and selected == "X":\n            return "A"', '        if metric == "E" and selected == "X":\n            return "P"'))
# ---------------------------------------------------------------- C07
mut("c07-eq-ignores-minor", ["C07"], ("cvss/cvss3.py", "            return self.clean_vector() == o.clean_vector()", "            return self.clean_vector(output_prefix=False) == o.clean_vector(output_prefix=False)"))
mut("c07-explicit-x-kept", ["C07", "C05"], ("cvss/cvss4.py", '                if value != "X":\n                    vector.append', '                if value != "X" or metric == "E":\n                    vector.append'))
mut("c07-eq-by-scores", ["C07"], ("cvss/cvss2.py", "            return self.clean_vector() == o.clean_vector()", "            return self.scores() == o.scores()"))
# ---------------------------------------------------------------- C08
mut("c08-v4-order-swapped", ["C08"], ("cvss/constants4.py", '        ("V", "Value Density"),\n        ("RE", "Vulnerability Response Effort"),\n        ("U", "Provider Urgency"),\n    ]',
                                      '        ("RE", "Vulnerability Response Effort"),\n        ("V", "Value Density"),\n        ("U", "Provider Urgency"),\n    ]'))
mut("c08-rh-raw-vector", ["C08", "C12"], ("cvss/cvss4.py", '        return str(self.base_score) + "/" + self.clean_vector()', '        return str(self.base_score) + "/" + self.vector'))
mut("c08-v4-threat-after-env", ["C08"], ("cvss/constants4.py", '        ("E", "Exploit Maturity"),\n        ("CR", "Confidentiality Req."),\n        ("IR", "Integrity Req."),\n        ("AR", "Availability Req."),\n',
                                         '        ("CR", "Confidentiality Req."),\n        ("IR", "Integrity Req."),\n        ("AR", "Availability Req."),\n        ("E", "Exploit Maturity"),\n'))
# ---------------------------------------------------------------- C09
mut("c09-high-boundary", ["C09"], ("cvss/cvss3.py", '            elif score <= D("8.9"):', '            elif score < D("8.9"):'))
mut("c09-v2-threshold", ["C09"], ("cvss/cvss2.py", '            elif score <= D("6.9"):', '            elif score <= D("7.0"):'))
mut("c09-json-severity-slot", ["C09", "C11"], ("cvss/cvss3.py", 'data["temporalSeverity"] = us(temporal_severity)', 'data["temporalSeverity"] = us(base_severity)'))
mut("c09-v4-low-boundary", ["C09"], ("cvss/cvss4.py", "        elif self.base_score <= 3.9:", "        elif self.base_score < 3.9:"))
# ---------------------------------------------------------------- C10
mut("c10-enum-misspelt", ["C10", "C11"], ("cvss/constants3.py", '[("X", "Not Defined"), ("C", "Confirmed"), ("R", "Reasonable"), ("U", "Unknown")]', '[("X", "Not Defined"), ("C", "Confirmed"), ("R", "Reasonably Sure"), ("U", "Unknown")]'))
mut("c10-score-as-string", ["C10", "C11"], ("cvss/cvss2.py", '                ("baseScore", float(self.base_score)),', '                ("baseScore", str(self.base_score)),'))
mut("c10-v3-severity-capitalised", ["C10"], ("cvss/cvss3.py", 'data["baseSeverity"] = us(base_severity)', 'data["baseSeverity"] = base_severity'))
mut("c10-v4-version-regressed", ["C10", "C11"], ("cvss/cvss4.py", '                ("version", "4.0"),', '                ("version", "4"),'))
# ---------------------------------------------------------------- C11
mut("c11-minimal-truthiness", ["C11"], ("cvss/cvss2.py", "        if not minimal or self.environmental_score is not None:", "        if not minimal or self.environmental_score:"))
mut("c11-value-names-swapped", ["C11"], ("cvss/constants2.py", '                    ("OF", "Official Fix"),\n                    ("TF", "Temporary Fix"),', '                    ("OF", "Temporary Fix"),\n                    ("TF", "Official Fix"),'))
mut("c11-sort-drops-key", ["C11"], ("cvss/cvss3.py", "            data = OrderedDict(sorted(data.items()))\n        return data\n\n    def __hash__", "            data = OrderedDict(sorted(data.items())[1:])\n        return data\n\n    def __hash__"))
mut("c11-modified-not-resolved", ["C11"], ("cvss/cvss3.py", '        string_value = self.metrics.get(abbreviation, "X")\n        result = METRICS_VALUE_NAMES[abbreviation][string_value]', '        string_value = self.original_metrics.get(abbreviation, "X")\n        result = METRICS_VALUE_NAMES[abbreviation][string_value]'))
mut("c11-vectorstring-cleaned", ["C11"], ("cvss/cvss2.py", '                ("vectorString", self.vector),', '                ("vectorString", self.clean_vector()),'))
# ---------------------------------------------------------------- C12
mut("c12-tolerance", ["C12"], ("cvss/cvss3.py", "        if cvss_object.scores()[0] == score_value:", "        if abs(cvss_object.scores()[0] - score_value) < 0.11:"))
mut("c12-any-score-slot", ["C12"], ("cvss/cvss2.py", "        if cvss_object.scores()[0] == score_value:", "        if score_value in cvss_object.scores():"))
mut("c12-rh-format", ["C12"], ("cvss/cvss3.py", '        return str(self.scores()[0]) + "/" + self.clean_vector()', '        return "%.0f" % self.scores()[0] + "/" + self.clean_vector()'))
mut("c12-vector-error-swallowed", ["C12"], ("cvss/cvss4.py", "        cvss_object = cls(base_vector)\n", "        try:\n            cvss_object = cls(base_vector)\n        except CVSS4MalformedError:\n            raise CVSS4RHMalformedError(\"Malformed\")\n"))
mut("c12-valueerror-leak", ["C12"], ("cvss/cvss2.py", '        try:\n            score_value = float(score)\n        except ValueError:\n            raise CVSS2RHMalformedError(\n                \'Malformed CVSS2 vector in Red Hat notation "{0}"\'.format(vector)\n            )\n', "        score_value = float(score)\n"))
# ---------------------------------------------------------------- C13
mut("c13-min-length-27", ["C13"], ("cvss/parser.py", "{26,}", "{27,}"))
mut("c13-only-3-0", ["C13"], ("cvss/parser.py", r"(?:CVSS:3\.\d/)?", r"(?:CVSS:3\.0/)?"))
mut("c13-cvss2-errors-escape", ["C13"], ("cvss/parser.py", "        except (CVSSError, KeyError):", "        except (CVSS3Error, KeyError):"),
    ("cvss/parser.py", "from .exceptions import CVSSError", "from .exceptions import CVSSError, CVSS3Error"))
mut("c13-list-not-set", ["C13"], ("cvss/parser.py", "            if cvss not in seen:", "            if True:"))
mut("c13-digit-glue", ["C13"], ("cvss/parser.py", "[A-Za-z:/]{26,}", "[A-Za-z0-9:/]{26,}"), note="a digit delimiter now glues to the vector")
# ---------------------------------------------------------------- C14
mut("c14-lookup-bump", ["C14", "C02"], ("cvss/constants4.py", '("002221", 2.7),', '("002221", 5.6),'))
mut("c14-ui-weight", ["C14", "C01"], ("cvss/constants3.py", '"UI": {"N": D("0.85"), "R": D("0.62")},', '"UI": {"N": D("0.85"), "R": D("0.9")},'))
mut("c14-v2-rl-weight", ["C14", "C03"], ("cvss/constants2.py", '"RL": {"OF": D("0.87"), "TF": D("0.90"), "W": D("0.95"), "U": D("1"), "ND": D("1")},', '"RL": {"OF": D("0.87"), "TF": D("0.96"), "W": D("0.95"), "U": D("1"), "ND": D("1")},'))
# ---------------------------------------------------------------- C15
mut("c15-temporal-order", ["C15"], ("cvss/constants3.py", 'TEMPORAL_METRICS = ["E", "RL", "RC"]', 'TEMPORAL_METRICS = ["RL", "E", "RC"]'))
mut("c15-env-original-metrics", ["C15"], ("cvss/cvss3.py", '            [metric + ":" + self.metrics.get(metric, "X") for metric in ENVIRONMENTAL_METRICS]', '            [metric + ":" + self.original_metrics.get(metric, "X") for metric in ENVIRONMENTAL_METRICS]'))
mut("c15-v2-nd-as-x", ["C15"], ("cvss/cvss2.py", '            [metric + ":" + self.metrics.get(metric, "ND") for metric in TEMPORAL_METRICS]', '            [metric + ":" + self.metrics.get(metric, "X") for metric in TEMPORAL_METRICS]'))
# ---------------------------------------------------------------- C16
mut("c16-no-upper", ["C16"], ("cvss/interactive.py", "            input_value = string_input().strip().upper()", "            input_value = string_input().strip()"))
mut("c16-stores-raw-answer", ["C16", "C08"], ("cvss/interactive.py", '                vector.append(metric + ":" + upper_values[input_value])', '                vector.append(metric + ":" + input_value)'))
mut("c16-prefix-30-as-31", ["C16"], ("cvss/interactive.py", '        vector_string = "CVSS:3.0/" + "/".join(vector)', '        vector_string = "CVSS:3.1/" + "/".join(vector)'))
mut("c16-optional-asked-v2", ["C16"], ("cvss/interactive.py", "    if all_metrics:\n        metrics = METRICS_ABBREVIATIONS.keys()", "    if all_metrics or version == 2:\n        metrics = METRICS_ABBREVIATIONS.keys()"))
mut("c16-no-strip", ["C16"], ("cvss/interactive.py", "            input_value = string_input().strip().upper()", "            input_value = string_input().upper()"))
# ---------------------------------------------------------------- C17
mut("c17-v4-dispatch", ["C17"], ("cvss/cvss_calculator.py", "            elif version == 4.0:\n                cvss_vector = CVSS4(vector_string)", "            elif version == 4.0:\n                cvss_vector = CVSS3(vector_string)"))
mut("c17-json-not-minimal", ["C17"], ("cvss/cvss_calculator.py", "cvss_vector.as_json(sort=True, minimal=True)", "cvss_vector.as_json(sort=True, minimal=False)"))
mut("c17-only-v3-errors", ["C17"], ("cvss/cvss_calculator.py", "from cvss import CVSS2, CVSS3, CVSS4, CVSSError, ask_interactively", "from cvss import CVSS2, CVSS3, CVSS4, ask_interactively\nfrom cvss import CVSS3Error as CVSSError"))
mut("c17-eof-not-caught", ["C17"], ("cvss/cvss_calculator.py", "    except (KeyboardInterrupt, EOFError):", "    except KeyboardInterrupt:"))
mut("c17-env-score-dropped", ["C17"], ("cvss/cvss_calculator.py", 'enumerate(["Base Score", "Temporal Score", "Environmental Score"])', 'enumerate(["Base Score", "Temporal Score"])'))
mut("c17-clean-vector-raw", ["C17"], ("cvss/cvss_calculator.py", 'print("Cleaned vector:       ", cvss_vector.clean_vector())', 'print("Cleaned vector:       ", vector_string)'))
# ---------------------------------------------------------------- C18
mut("c18-json-cached-by-reference", ["C18"],
    ("cvss/cvss3.py", "        base_severity, temporal_severity, environmental_severity = self.severities()\n\n        # Ordered,", "        if not sort and not minimal and hasattr(self, \"_json\"):\n            return self._json\n        base_severity, temporal_severity, environmental_severity = self.severities()\n\n        # Ordered,"),
    ("cvss/cvss3.py", "            data = OrderedDict(sorted(data.items()))\n        return data\n\n    def __hash__", "            data = OrderedDict(sorted(data.items()))\n        if not sort and not minimal:\n            self._json = data\n        return data\n\n    def __hash__"))
mut("c18-clean-vector-mutates", ["C18"], ("cvss/cvss3.py", '                if value != "X":\n                    vector.append("{0}:{1}".format(metric, value))\n        if output_prefix:\n            prefix = "CVSS:3.{0}/"',
                                          '                if value != "X":\n                    vector.append("{0}:{1}".format(metric, value))\n                else:\n                    del self.original_metrics[metric]\n        if output_prefix:\n            prefix = "CVSS:3.{0}/"'))
mut("c18-as-json-pops-metric", ["C18"], ("cvss/cvss2.py", "        if sort:\n            data = OrderedDict(sorted(data.items()))\n\n        return data", "        if sort:\n            data = OrderedDict(sorted(data.items()))\n            self.metrics.pop(\"RL\", None)\n\n        return data"))
# ---------------------------------------------------------------- C19
mut("c19-env-cache-without-minor", ["C19"],
    ("cvss/cvss3.py", "        self.compute_environmental_score()\n\n    def parse_vector(self):", "        key = self.clean_vector(output_prefix=False)\n        if key in _ENV_CACHE:\n            self.environmental_score = _ENV_CACHE[key]\n        else:\n            self.compute_environmental_score()\n            _ENV_CACHE[key] = self.environmental_score\n\n    def parse_vector(self):"),
    ("cvss/cvss3.py", "def round_up(value):", "_ENV_CACHE = {}\n\n\ndef round_up(value):"))
mut("c19-constant-table-updated", ["C19"], ("cvss/cvss3.py", "        result = METRICS_VALUE_NAMES[abbreviation][string_value]", '        METRICS_VALUE_NAMES[abbreviation].setdefault("ND", "Not Defined")\n        result = METRICS_VALUE_NAMES[abbreviation][string_value]'))
mut("modes-side-effect-inside-assert", ["C02"], ("cvss/cvss4.py", '            fields = self.vector.split("/")[1:]', '            fields = self.vector.split("/")\n            assert fields.pop(0) == "CVSS:4.0"'),
    note="only under python -O: interpreter-mode stage")
mut("modes-bytes-literal-comparison", ["C06"], ("cvss/cvss3.py", 'self.metrics[abbreviation] == "X":', 'self.metrics[abbreviation] in ("X", b"X"):'),
    note="only under python -bb: interpreter-mode stage")
mut("c19-after-three-thousand-roundings", ["C19"], ("cvss/cvss3.py", "def round_up(value):", "_SEEN = []\n\n\ndef round_up(value):\n    _SEEN.append(None)\n    if len(_SEEN) > 3000:\n        return value.quantize(D(\"0.1\"))"),
    note="only a LONG history (about a thousand v3 objects) reaches it: check 'many'")
mut("c19-sets-context-rounding", ["C19"], ("cvss/cvss3.py", '    return value.quantize(D("0.1"), rounding=ROUND_CEILING)', '    import decimal\n\n    decimal.getcontext().rounding = ROUND_CEILING\n    return value.quantize(D("0.1"))'))
mut("c19-module-scratch-variable", ["C19"],
    ("cvss/cvss3.py", '        self.scope = self.metrics["S"]\n', '        global _SCOPE\n        _SCOPE = self.metrics["S"]\n        self.scope = _SCOPE\n'),
    ("cvss/cvss3.py", '        if (abbreviation == "PR" and self.scope == "C") or (', '        if (abbreviation == "PR" and _SCOPE == "C") or ('),
    note="only an interleaving (or the global-state snapshot) reveals it")
mut("c19-print-in-constructor", ["C19"], ("cvss/cvss4.py", "        self.parse_vector()\n        self.check_mandatory()\n        self.add_missing_optional()", "        self.parse_vector()\n        self.check_mandatory()\n        if len(self.metrics) > 25:\n            print(\"large vector\", self.vector)\n        self.add_missing_optional()"))
mut("c19-ambient-rounding", ["C19"], ("cvss/cvss2.py", '    return value.quantize(D("0.1"), rounding=ROUND_HALF_UP)', '    return (value + D("0.05")).quantize(D("0.1"), rounding="ROUND_FLOOR") if value >= 0 else value.quantize(D("0.1"))'),
    note="negative intermediate values are rounded with the ambient mode")
mut("c19-ambient-rounding-v3", ["C19"], ("cvss/cvss3.py", "        self.esc = (\n            D(\"8.22\")", "        self.esc = +(\n            D(\"8.22\")"), tier="none",
    note="unary plus rounds to the context precision: harmless at prec>=28, i.e. an EQUIVALENT mutant on the property's domain (the product has at most 11 significant digits, so rounding to >= 28 digits is the identity); survives the quick tier as expected")
mut("c19-hash-order-leak", ["C19"], ("cvss/cvss_calculator.py", "sort=True, minimal=True", "sort=False, minimal=True"), tier="none",
    note="py3 dicts are ordered: not observable; kept as documentation of an equivalent mutant")
mut("c19-warnings-filter", ["C19"], ("cvss/parser.py", "    cvsss = []", "    import warnings\n\n    warnings.simplefilter(\"ignore\")\n    cvsss = []"))
# ---------------------------------------------------------------- C20
mut("c20-fstring", ["C20"], ("cvss/cvss2.py", "'Unknown metric \"{0}\" in field \"{1}\"'.format(metric, field)", "f'Unknown metric \"{metric}\" in field \"{field}\"'"))
mut("c20-print-function-import", ["C20"], ("cvss/interactive.py", "from __future__ import print_function, unicode_literals", "from __future__ import unicode_literals"))
mut("c20-dict-order-dispatch", ["C20"], ("cvss/cvss_calculator.py", 'true_version_key = next((key for key in ("2", "3", "4") if args.__dict__[key]), None)', "true_version_key = next((key for key, value in args.__dict__.items() if value), None)"))
mut("c20-keyword-only", ["C20"], ("cvss/cvss3.py", "    def clean_vector(self, output_prefix=True):", "    def clean_vector(self, *, output_prefix=True):"))
mut("c20-true-division", ["C20"], ("cvss/cvss4.py", "from __future__ import unicode_literals\n\nimport copy", "import copy"),
    ("cvss/cvss4.py", "            percent_to_next_eq1_severity = (current_severity_distance_eq1) / max_severity_eq1", "            percent_to_next_eq1_severity = int(round(current_severity_distance_eq1 * 10)) / int(round(max_severity_eq1 * 10))"),
    note="integer division on 2.7 without from __future__ import division")
mut("c20-float-repr", ["C20"], ("cvss/cvss4.py", '        return str(self.base_score) + "/" + self.clean_vector()', '        return str(self.base_score + 0.0000000000001 - 0.0000000000001) + "/" + self.clean_vector()'), tier="none",
    note="str(float) differs between 2.7 (12 digits) and 3.x only for noisy floats; C12 catches it first on 3.x")


def by_name():
    return dict((m["name"], m) for m in M)


if __name__ == "__main__":
    import sys
    if sys.argv[1:] == ["list"]:
        for m in M:
            print(m["name"], ",".join(m["props"]), m["tier"])
mut("c19-result-order-from-a-set", ["C19"], ("cvss/parser.py", "    return cvsss", "    return list(set(cvsss))"),
    note="the order of the returned list follows the hash seed again (the defect repaired by 10b19ef)")

