# -*- coding: utf-8 -*-
"""
Probe program, written in the common subset of Python 2.7 and 3.x, no dependency besides the cvss
package found through PYTHONPATH.  Used by C19 (fresh-process reference, hash seeds) and C20
(differential execution on every supported interpreter).

    python probe27.py INPUT.json OUTPUT.json

INPUT: {"items": [...], "order_seed": int|null}.  Items:
    ["ctor", ver, string]            ["rh", ver, string]          ["text", text]
    ["interactive", version, all_metrics, [answers...]]           ["cli", [argv...], [stdin lines]|null]
OUTPUT: {"python": "x.y.z", "import_ok": true, "results": [...]} in the order of the items.
"""
from __future__ import print_function, unicode_literals

import io
import json
import sys

PY2 = sys.version_info[0] == 2
if PY2:
    text_type = unicode  # noqa
else:
    text_type = str


def describe(ver, o):
    d = {"scores": list(o.scores()), "clean": o.clean_vector(), "rh": o.rh_vector()}
    d["severities"] = list(o.severities())
    if ver != "2":
        d["clean_noprefix"] = o.clean_vector(output_prefix=False)
    if ver in ("2", "3"):
        d["tv"] = o.temporal_vector()
        d["ev"] = o.environmental_vector()
    if ver == "4":
        d["severity_attr"] = o.severity
    for sort in (False, True):
        for minimal in (False, True):
            j = o.as_json(sort=sort, minimal=minimal)
            key = "json_%d%d" % (sort, minimal)
            if sort:
                d[key] = [[k, v] for k, v in j.items()]          # key order is promised
            else:
                d[key] = sorted([k, v] for k, v in j.items())    # content ...
                d[key + "_order"] = list(j)                      # ... and the order of the keys as returned ("JSON content and key order")
    d["eq_self"] = bool(o == o)
    twin = type(o)(o.vector)
    d["twin"] = [bool(o == twin), bool(o != twin), bool(o != o), hash(o) == hash(twin)]     # == and != must agree under every interpreter
    d["types"] = sorted(set(type(x).__name__ for x in o.scores()))
    return d


def ctor(classes, ver, s, rh=False):
    C = classes[ver]
    try:
        o = C.from_rh_vector(s) if rh else C(s)
    except Exception as e:
        # an exception is the call's own: one that was already handed to an earlier caller (who may have annotated or chained it,
        # and whose frames hang on its traceback) carries the earlier caller's mark
        r = {"exc": type(e).__name__, "msg": text_type(e), "handed out before": bool(getattr(e, "_vf_seen", False)),
             "chained": getattr(e, "__context__", None) is not None or getattr(e, "__cause__", None) is not None}
        try:
            e._vf_seen = True
        except Exception:  # noqa
            pass
        return r
    return describe(ver, o)


class Lines(object):
    def __init__(self, lines):
        self.lines = list(lines)
        self.i = 0

    def readline(self, *a):
        if self.i >= len(self.lines):
            return "" if not PY2 else b""
        r = self.lines[self.i] + "\n"
        self.i += 1
        if PY2:
            # U+DC80..U+DCFF stand for bytes that are not valid UTF-8 (as in os.fsdecode on 3.x): a terminal or pipe can deliver them
            r = b"".join(chr(ord(c) - 0xDC00) if 0xDC80 <= ord(c) <= 0xDCFF else c.encode("utf-8") for c in r)
        return r

    def read(self, *a):
        return self.readline()

    def isatty(self):
        return False


class Capture(object):
    """stdout replacement accepting both bytes and text on Python 2"""

    def __init__(self):
        self.parts = []

    def write(self, x):
        if isinstance(x, bytes) and not isinstance(x, text_type):
            x = x.decode("utf-8", "replace")
        self.parts.append(x)

    def flush(self):
        pass

    def getvalue(self):
        return "".join(self.parts)


def with_io(lines, fn):
    old = (sys.stdin, sys.stdout, sys.stderr)
    out, err = Capture(), Capture()
    sys.stdin, sys.stdout, sys.stderr = Lines(lines or []), out, err
    res = {}
    try:
        try:
            res["ret"] = fn()
        except EOFError:
            res["eof"] = True
        except SystemExit as e:
            res["exit"] = e.code
        except BaseException as e:  # noqa
            res["exc"] = type(e).__name__
    finally:
        sys.stdin, sys.stdout, sys.stderr = old
    res["out"] = out.getvalue()
    res["err"] = err.getvalue()
    return res


def interactive(version, allm, answers):
    import cvss
    if PY2:
        import cvss.interactive as it
        # raw_input reads bytes from sys.stdin; keep the module's own reader
        _ = it
    r = with_io(answers, lambda: cvss.ask_interactively(version, allm, True))
    r.pop("out", None)        # prompts are not compared, only the result
    r.pop("err", None)
    return r


def cli(argv, stdin):
    import cvss.cvss_calculator as cc
    old = sys.argv
    if PY2:
        sys.argv = [b"cvss_calculator"] + [a.encode("utf-8") for a in argv]
    else:
        sys.argv = ["cvss_calculator"] + list(argv)
    try:
        r = with_io(stdin, cc.main)
    finally:
        sys.argv = old
    r.pop("ret", None)
    if stdin is not None and not any(a.startswith("--vector") or a == "-v" for a in argv):
        # interactive dialogue: compare the report only (everything from the version banner line on)
        out = r.get("out", "")
        idx = max(out.rfind("\nCVSS2\n"), out.rfind("\nCVSS3\n"), out.rfind("\nCVSS4\n"))
        r["out"] = out[idx:] if idx >= 0 else ""
    return r


def to_bytes(u):
    """text -> the bytes a POSIX command line carries: UTF-8, U+DC80..U+DCFF standing for the raw bytes 0x80..0xFF"""
    out = bytearray()
    for ch in u:
        cp = ord(ch)
        if 0xDC80 <= cp <= 0xDCFF:
            out.append(cp - 0xDC00)
        else:
            out.extend(ch.encode("utf-8"))
    return bytes(out)


def cli_process(argv, stdin):
    """the calculator as a REAL child process of this interpreter (real standard streams: what they can be asked to do differs
    between interpreter versions): exit status and the bytes written to stdout"""
    import binascii
    import os
    import subprocess
    env = dict(os.environ)
    env["PYTHONIOENCODING"] = "utf-8"
    p = subprocess.Popen([to_bytes(sys.executable if not isinstance(sys.executable, bytes) else sys.executable.decode("utf-8")), b"-m", b"cvss.cvss_calculator"] + [to_bytes(a) for a in argv],
                         stdin=subprocess.PIPE, stdout=subprocess.PIPE, stderr=subprocess.PIPE, env=env)
    data = b"" if stdin is None else b"".join(to_bytes(l) + b"\n" for l in stdin)
    out, err = p.communicate(data)
    if stdin is not None and not any(a.startswith("--vector") or a == "-v" for a in argv):
        idx = max(out.rfind(b"\nCVSS2\n"), out.rfind(b"\nCVSS3\n"), out.rfind(b"\nCVSS4\n"))
        out = out[idx:] if idx >= 0 else b""
    return {"status": p.returncode, "out_hex": binascii.hexlify(out).decode("ascii"), "traceback": b"Traceback" in err}


def evaluate(it):
    from cvss import CVSS2, CVSS3, CVSS4
    from cvss.parser import parse_cvss_from_text
    classes = {"2": CVSS2, "3": CVSS3, "4": CVSS4}
    k = it[0]
    if k == "ctor":
        return ctor(classes, it[1], it[2])
    if k == "rh":
        return ctor(classes, it[1], it[2], True)
    if k == "ctor-native":
        # the interpreter's NATIVE string type: bytes on 2.x (what open().read(), argv, raw_input hand out there), str on 3.x
        C = {"2": CVSS2, "3": CVSS3, "4": CVSS4}
        return ctor(C, it[1], it[2].encode("utf-8") if PY2 else it[2])
    if k == "text":
        try:
            r = parse_cvss_from_text(it[1])
            return [[type(o).__name__, o.vector, list(o.scores())] for o in r]       # as returned: the order is output too
        except BaseException as e:  # noqa
            return {"exc": type(e).__name__}
    if k == "interactive":
        return interactive(it[1], it[2], it[3])
    if k == "cli":
        return cli(it[1], it[2])
    if k == "cli-process":
        return cli_process(it[1], it[2])
    raise ValueError(k)


def ambient():
    """process-global state a library must leave alone (taken before the package is imported and at the end)"""
    import decimal
    import warnings
    import gc
    import locale
    import logging
    import os
    import random
    import signal
    c = decimal.getcontext()
    sigs = {}
    for name in sorted(dir(signal)):
        if name.startswith("SIG") and not name.startswith("SIG_"):
            try:
                h = signal.getsignal(getattr(signal, name))
            except (ValueError, OSError, TypeError):
                continue
            sigs[name] = getattr(h, "__name__", None) or repr(h)
    try:
        loc = locale.setlocale(locale.LC_ALL)       # a query: nothing is set
    except Exception as e:  # noqa
        loc = repr(e)
    mask = os.umask(0)
    os.umask(mask)
    bi = __import__("__builtin__" if PY2 else "builtins")
    return {"decimal": [c.prec, str(c.rounding), c.Emin, c.Emax, c.capitals, getattr(c, "clamp", None),
                        sorted(str(k) for k, v in c.traps.items() if v)],
            "sys.path": list(sys.path),
            "warnings.filters": [repr(f) for f in warnings.filters],
            "warnings.showwarning": "%s.%s" % (getattr(warnings.showwarning, "__module__", "?"), getattr(warnings.showwarning, "__name__", "?")),
            "cwd": os.getcwd(),
            "signal handlers": sigs,
            "locale": loc,
            "environ": dict((repr(k), repr(v)) for k, v in os.environ.items()),
            "umask": mask,
            "recursion limit": sys.getrecursionlimit(),
            "switch interval": sys.getcheckinterval() if PY2 else sys.getswitchinterval(),
            "default encoding": sys.getdefaultencoding(),
            "gc": [gc.isenabled(), list(gc.get_threshold())],
            "std streams are the original ones": [sys.stdin is sys.__stdin__, sys.stdout is sys.__stdout__, sys.stderr is sys.__stderr__],
            "stdout encoding": [getattr(sys.__stdout__, "encoding", None), getattr(sys.__stdout__, "errors", None)],
            "hooks are the original ones": [sys.excepthook is sys.__excepthook__, sys.displayhook is sys.__displayhook__],
            "logging root": [logging.root.level, len(logging.root.handlers), logging.root.manager.disable, logging.raiseExceptions],
            "random state": hash(repr(random.getstate())) & 0xFFFFFFFF,
            "builtins": len(dir(bi)),
            "import hooks": [len(sys.meta_path), len(sys.path_hooks)]}


def _freeze(v, depth=0):
    """order-independent, interpreter-independent rendering of a table"""
    if depth > 6:
        return "..."
    if isinstance(v, dict):
        return ["dict"] + sorted([[_freeze(k, depth + 1), _freeze(x, depth + 1)] for k, x in v.items()], key=repr)
    if isinstance(v, (set, frozenset)):
        return ["set"] + sorted([_freeze(x, depth + 1) for x in v], key=repr)
    if isinstance(v, (list, tuple)):
        return [type(v).__name__] + [_freeze(x, depth + 1) for x in v]
    if isinstance(v, bytes) and not isinstance(v, str):
        return v.decode("latin-1")
    if isinstance(v, (text_type, str, int, float, bool)) or v is None:
        return v
    return "%s:%s" % (type(v).__name__, v)


def tables():
    """the package's own module-level data (public names): its constant tables"""
    import decimal
    out = {}
    for name in sorted(sys.modules):
        mod = sys.modules[name]
        if mod is None or not (name == "cvss" or name.startswith("cvss.")):
            continue
        for k in sorted(vars(mod)):
            v = vars(mod)[k]
            if k.startswith("_"):
                continue
            if isinstance(v, (dict, list, tuple, set, frozenset, text_type, str, int, float, decimal.Decimal)):
                out[name + "." + k] = _freeze(v)
    return out


def main():
    with io.open(sys.argv[1], encoding="utf-8") as f:
        inp = json.load(f)
    out = {"python": ".".join(str(x) for x in sys.version_info[:3]), "import_ok": False, "results": []}
    import decimal  # noqa  (imported before the snapshot so that the import itself is not counted)
    import warnings  # noqa
    import random  # noqa
    import gc, locale, logging, signal  # noqa
    out["ambient_before"] = ambient()
    try:
        import cvss
        from cvss import CVSS2, CVSS3, CVSS4
        from cvss.parser import parse_cvss_from_text
        import cvss.cvss_calculator  # noqa
        import cvss.interactive  # noqa
        out["import_ok"] = True
        out["cvss_file"] = cvss.__file__
    except BaseException as e:  # noqa
        out["import_error"] = "%s: %s" % (type(e).__name__, e)
        _dump(out)
        return
    out["tables_before"] = tables()          # right after the import, before the first call
    items = inp["items"]
    idx = list(range(len(items)))
    if inp.get("order_seed") is not None:
        import random
        random.Random(inp["order_seed"]).shuffle(idx)
    results = [None] * len(items)
    for i in idx:
        results[i] = evaluate(items[i])
    out["results"] = results
    out["ambient_after"] = ambient()
    out["tables_after"] = tables()
    _dump(out)


def _dump(out):
    data = json.dumps(out, ensure_ascii=True, sort_keys=True)
    if PY2:
        with open(sys.argv[2], "wb") as f:
            f.write(data.encode("ascii"))
    else:
        with io.open(sys.argv[2], "w", encoding="ascii") as f:
            f.write(data)


if __name__ == "__main__":
    main()
