# -*- coding: utf-8 -*-
from __future__ import print_function

import importlib
import json
import os
import sys
import time
import traceback

from . import runner


def usage():
    print("usage: vcheck <ID> quick|thorough | vcheck <ID> replay <file> | vcheck selftest [ID...]", file=sys.stderr)
    return 2


def main(argv):
    if not argv:
        return usage()
    if argv[0] == "selftest":
        from . import selftest
        return selftest.main(argv[1:])
    if len(argv) < 2:
        return usage()
    pid, mode = argv[0].upper(), argv[1]
    try:
        if os.environ.get("VERIF_HOST") == "1" and mode in ("batch", "replay"):
            runner.host_application_settings()      # imports the package under the settings of a "host application"
        runner.import_target()
        mod = importlib.import_module("vf.props." + pid.lower())
    except runner.HarnessError as e:
        print("HARNESS-ERROR property=%s %s" % (pid, e), file=sys.stderr)
        return 2
    except ImportError:
        traceback.print_exc()
        return 2
    if os.environ.get("VERIF_RELOAD") == "1" and mode in ("batch", "replay"):
        try:
            runner.reload_target()
        except BaseException:  # noqa
            print("HARNESS-ERROR property=%s reloading the package failed:" % pid, file=sys.stderr)
            traceback.print_exc()
            return 2
    if mode == "batch":
        return runner.batch_main(pid, mod, argv[2], argv[3])
    if mode == "replay":
        if len(argv) < 3:
            return usage()
        with open(argv[2]) as f:
            case = json.load(f)
        env = case.get("env") or {}
        if env and any(os.environ.get(k) != v for k, v in env.items()):
            rc, out = runner.replay_in_env(pid, os.path.abspath(argv[2]), env)     # the case needs that interpreter mode
            sys.stdout.write(out)
            return rc
        fn = mod.CHECKS[case["check"]]
        part = runner.Part(pid)
        part.check(case["check"], fn, case["input"])
        if part.violations:
            for v in part.violations:
                print("VIOLATION property=%s replay=%s" % (pid, os.path.abspath(argv[2])))
                print("  expected=%s" % json.dumps(v.get("expected"), default=repr)[:400])
                print("  observed=%s" % json.dumps(v.get("observed"), default=repr)[:400])
            return 1
        for k, n in part.known_hits.items():
            print("KNOWN-FINDING: property=%s key=%s %s" % (pid, k, part.known().get((pid, k), "")))
        print("replay of %s: property holds on this case" % argv[2])
        return 0
    tier = mode if mode in ("quick", "thorough") else (os.environ.get("VERIF_TIER") or mode)   # "auto": take VERIF_TIER
    if tier not in ("quick", "thorough"):
        return usage()
    t0 = time.time()
    try:
        return mod.run(tier, t0)
    except runner.HarnessError as e:
        print("HARNESS-ERROR property=%s %s" % (pid, e), file=sys.stderr)
        return 2
    except BaseException:  # noqa
        print("HARNESS-ERROR property=%s unexpected exception in the harness:" % pid, file=sys.stderr)
        traceback.print_exc()
        return 2


if __name__ == "__main__":
    sys.exit(main(sys.argv[1:]))
