# -*- coding: utf-8 -*-
"""Running vf/probe27.py under an arbitrary interpreter."""
from __future__ import unicode_literals

import json
import os
import shutil
import subprocess
import sys
import tempfile

from . import runner

PROBE = os.path.join(os.path.dirname(os.path.abspath(__file__)), "probe27.py")


def run_probe(items, python=None, order_seed=None, hashseed=None, timeout=600):
    """-> parsed output dict, or {"error": ...}"""
    d = tempfile.mkdtemp(prefix="vfprobe")
    try:
        inp, outp = os.path.join(d, "in.json"), os.path.join(d, "out.json")
        with open(inp, "w") as f:
            json.dump({"items": items, "order_seed": order_seed}, f, ensure_ascii=True)
        env = {"PATH": os.environ.get("PATH", "/usr/bin:/bin"), "PYTHONPATH": runner.REPO, "PYTHONDONTWRITEBYTECODE": "1",
               "PYTHONIOENCODING": "utf-8", "HOME": os.environ.get("HOME", "/root"), "LANG": "C.UTF-8"}
        if hashseed is not None:
            env["PYTHONHASHSEED"] = str(hashseed)
        try:
            p = subprocess.run([python or sys.executable, PROBE, inp, outp], stdout=subprocess.PIPE, stderr=subprocess.PIPE,
                               env=env, timeout=timeout, cwd=d)
        except subprocess.TimeoutExpired:
            return {"error": "timeout"}
        if not os.path.exists(outp):
            return {"error": "no output (status %s): %s" % (p.returncode, p.stderr.decode("utf-8", "replace")[-600:])}
        with open(outp) as f:
            out = json.load(f)
        out["stderr"] = p.stderr.decode("utf-8", "replace")[-400:]
        out["status"] = p.returncode
        return out
    finally:
        shutil.rmtree(d, ignore_errors=True)


def local_results(items):
    """evaluate the same items in THIS process with the same describe() code (for C19 histories)"""
    import importlib.util
    spec_ = importlib.util.spec_from_file_location("vf_probe27_local", PROBE)
    mod = importlib.util.module_from_spec(spec_)
    spec_.loader.exec_module(mod)
    return mod
