# -*- coding: utf-8 -*-
"""
Deterministic thread scheduler: the harness owns the interleaving.

N threads each run one job.  A sys.settrace line tracer that is active only in frames whose code
lives in the tree under test blocks each thread on its own semaphore; a schedule [(thread, run
length in line events), ...] decides who advances.  The interleaving is therefore a pure function
of the schedule: shrinkable and replayable.
"""
from __future__ import unicode_literals

import dis
import os
import sys
import threading

MUTABLE = (dict, list, set, bytearray)


IMPORT_LEN = {}         # id(container) -> len right after the import of the package
STATE = set()           # ids of containers seen with another size than at import: module-level STATE (caches, memos, registries)


def note_import_state():
    for name, mod in list(sys.modules.items()):
        if name == "cvss" or name.startswith("cvss."):
            for v in list(vars(mod).values()):
                if isinstance(v, MUTABLE):
                    IMPORT_LEN.setdefault(id(v), len(v))


def is_state(v):
    if not isinstance(v, MUTABLE):
        return False
    if id(v) in STATE:
        return True
    if IMPORT_LEN.get(id(v), -1) != len(v):         # created later, or grown / shrunk since the import: not a constant table
        STATE.add(id(v))
        return True
    return False


def hot_lines(code, globs):
    """{line: names} for the lines of a code object that load a global bound to a mutable container, or (re)bind / delete any global
    (names: None).  Whether such a line touches STATE is decided when it runs (is_state)."""
    out = {}
    line = code.co_firstlineno
    for ins in dis.get_instructions(code):
        ln = getattr(ins, "starts_line", None)
        if ln is not None and ln is not True and ln is not False:
            line = ln
        elif getattr(ins, "positions", None) is not None and ins.positions.lineno is not None:
            line = ins.positions.lineno
        if ins.opname in ("STORE_GLOBAL", "DELETE_GLOBAL"):
            out[line] = None
        elif ins.opname in ("LOAD_GLOBAL", "LOAD_NAME") and isinstance(globs.get(ins.argval), MUTABLE) and out.get(line, ()) is not None:
            out.setdefault(line, []).append(ins.argval)
    return out


class Sched(object):
    def __init__(self, jobs, schedule, target_dir, tail_quantum=None, pct=None):
        self.jobs = jobs
        self.n = len(jobs)
        self.schedule = [(int(t), int(k)) for t, k in schedule]
        self.pos = 0
        # after the schedule: round robin with this quantum (None: run to completion); a pair [seed, max] instead of a number
        # gives an aperiodic tail: thread and run length (1..max) of every turn come from a linear congruential sequence
        self.tail_quantum = tail_quantum
        self.lcg = None
        if isinstance(tail_quantum, (list, tuple)):
            self.lcg = int(tail_quantum[0]) & 0xFFFFFFFF
            self.lcg_max = max(1, int(tail_quantum[1]))
        self.rr = 0
        # priority mode (after Burckhardt et al., "A randomized scheduler with probabilistic guarantees of finding bugs"): the
        # runnable thread of highest priority runs; at d-1 change points, counted in HOT line events (lines that touch module-level
        # mutable state), the running thread drops below all others.  A thread parked on such a line stays parked for long.
        self.pct = pct
        self.hot_events = 0
        self._hot = {}
        if pct:
            x = int(pct["seed"]) & 0x7FFFFFFF
            pr = []
            for i in range(self.n):
                x = (x * 1103515245 + 12345) & 0x7FFFFFFF
                pr.append(((x >> 8), i))
            self.prio = dict((t, self.n + 10 + r) for r, (_, t) in enumerate(sorted(pr)))
            self.change = {}
            for j in range(max(0, int(pct.get("d", 2)) - 1)):
                x = (x * 1103515245 + 12345) & 0x7FFFFFFF
                self.change[1 + (x >> 4) % max(1, int(pct.get("k", 1000)))] = self.n - j      # new, ever lower priority
        self.sems = [threading.Semaphore(0) for _ in jobs]
        self.done = [False] * self.n
        self.results = [None] * self.n
        self.cur = None
        self.budget = 0
        self.switches = 0
        self.events = 0
        self.target_dir = target_dir.rstrip(os.sep) + os.sep

    def pick(self):
        if self.pct:
            best = None
            for t in range(self.n):
                if not self.done[t] and (best is None or self.prio[t] > self.prio[best]):
                    best = t
            if best is not None:
                self.cur, self.budget = best, 10 ** 9
            return best
        while self.pos < len(self.schedule):
            t, k = self.schedule[self.pos]
            self.pos += 1
            t %= self.n
            if not self.done[t]:
                self.cur, self.budget = t, max(1, k)
                return t
        if self.lcg is not None:
            self.lcg = (self.lcg * 1103515245 + 12345) & 0x7FFFFFFF
            start, k = (self.lcg >> 16) % self.n, 1 + (self.lcg >> 8) % self.lcg_max
            for i in range(self.n):
                t = (start + i) % self.n
                if not self.done[t]:
                    self.cur, self.budget = t, k
                    return t
            return None
        for i in range(self.n):
            t = (self.rr + 1 + i) % self.n if self.tail_quantum else i
            if not self.done[t]:
                self.rr = t
                self.cur, self.budget = t, (self.tail_quantum or 10 ** 9)
                return t
        return None

    def is_hot(self, frame):
        code = frame.f_code
        lines = self._hot.get(code)
        if lines is None:
            try:
                lines = hot_lines(code, frame.f_globals)
            except Exception:  # noqa
                lines = {}
            self._hot[code] = lines
        if frame.f_lineno not in lines:
            return False
        names = lines[frame.f_lineno]
        if names is None:
            return True
        g = frame.f_globals
        for nm in names:
            if is_state(g.get(nm)):
                return True
        return False

    def yield_point(self, tid, frame=None):
        self.events += 1
        if self.pct:
            if frame is not None and self.is_hot(frame):
                self.hot_events += 1
                low = self.change.get(self.hot_events)
                if low is not None:
                    self.prio[tid] = low
                    nxt = self.pick()
                    if nxt is not None and nxt != tid:
                        self.switches += 1
                        self.sems[nxt].release()
                        self.sems[tid].acquire()
            return
        self.budget -= 1
        if self.budget <= 0:
            nxt = self.pick()
            if nxt is not None and nxt != tid:
                self.switches += 1
                self.sems[nxt].release()
                self.sems[tid].acquire()

    def tracer(self, tid):
        def local(frame, event, arg):
            if event == "line":
                self.yield_point(tid, frame)
            return local

        def glob(frame, event, arg):
            if frame.f_code.co_filename.startswith(self.target_dir):
                return local
            return None
        return glob

    def body(self, tid):
        self.sems[tid].acquire()
        sys.settrace(self.tracer(tid))
        try:
            try:
                self.results[tid] = self.jobs[tid]()
            except BaseException as e:  # noqa
                self.results[tid] = {"thread_exc": "%s: %s" % (type(e).__name__, e)}
        finally:
            sys.settrace(None)
            self.done[tid] = True
            nxt = self.pick()
            if nxt is not None:
                self.sems[nxt].release()

    def run(self, timeout=30):
        ths = [threading.Thread(target=self.body, args=(i,)) for i in range(self.n)]
        for t in ths:
            t.daemon = True
            t.start()
        first = self.pick()
        self.sems[first].release()
        for t in ths:
            t.join(timeout)
        if any(t.is_alive() for t in ths):
            raise RuntimeError("scheduler deadlock")
        return self.results
