# -*- coding: utf-8 -*-
"""
Deterministic thread scheduler: the harness owns the interleaving.

N threads each run one job.  A sys.settrace line tracer that is active only in frames whose code
lives in the tree under test blocks each thread on its own semaphore; a schedule [(thread, run
length in line events), ...] decides who advances.  The interleaving is therefore a pure function
of the schedule: shrinkable and replayable.
"""
from __future__ import unicode_literals

import os
import sys
import threading


class Sched(object):
    def __init__(self, jobs, schedule, target_dir, tail_quantum=None):
        self.jobs = jobs
        self.n = len(jobs)
        self.schedule = [(int(t), int(k)) for t, k in schedule]
        self.pos = 0
        self.tail_quantum = tail_quantum      # after the schedule: round robin with this quantum (None: run to completion)
        self.rr = 0
        self.sems = [threading.Semaphore(0) for _ in jobs]
        self.done = [False] * self.n
        self.results = [None] * self.n
        self.cur = None
        self.budget = 0
        self.switches = 0
        self.events = 0
        self.target_dir = target_dir.rstrip(os.sep) + os.sep

    def pick(self):
        while self.pos < len(self.schedule):
            t, k = self.schedule[self.pos]
            self.pos += 1
            t %= self.n
            if not self.done[t]:
                self.cur, self.budget = t, max(1, k)
                return t
        for i in range(self.n):
            t = (self.rr + 1 + i) % self.n if self.tail_quantum else i
            if not self.done[t]:
                self.rr = t
                self.cur, self.budget = t, (self.tail_quantum or 10 ** 9)
                return t
        return None

    def yield_point(self, tid):
        self.events += 1
        self.budget -= 1
        if self.budget <= 0:
            nxt = self.pick()
            if nxt is not None and nxt != tid:
                self.switches += 1
                self.sems[nxt].release()
                self.sems[tid].acquire()

    def tracer(self, tid):
        def local(frame, event, arg):
            if event == "line":
                self.yield_point(tid)
            return local

        def glob(frame, event, arg):
            if frame.f_code.co_filename.startswith(self.target_dir):
                return local
            return None
        return glob

    def body(self, tid):
        self.sems[tid].acquire()
        sys.settrace(self.tracer(tid))
        try:
            try:
                self.results[tid] = self.jobs[tid]()
            except BaseException as e:  # noqa
                self.results[tid] = {"thread_exc": "%s: %s" % (type(e).__name__, e)}
        finally:
            sys.settrace(None)
            self.done[tid] = True
            nxt = self.pick()
            if nxt is not None:
                self.sems[nxt].release()

    def run(self, timeout=30):
        ths = [threading.Thread(target=self.body, args=(i,)) for i in range(self.n)]
        for t in ths:
            t.daemon = True
            t.start()
        first = self.pick()
        self.sems[first].release()
        for t in ths:
            t.join(timeout)
        if any(t.is_alive() for t in ths):
            raise RuntimeError("scheduler deadlock")
        return self.results
