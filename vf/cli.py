# -*- coding: utf-8 -*-
"""Running the command-line calculator in-process and as a subprocess."""
from __future__ import unicode_literals

import io
import os
import subprocess
import sys

from . import interact, runner


class Utf8Capture(io.TextIOWrapper):
    def __init__(self):
        io.TextIOWrapper.__init__(self, io.BytesIO(), encoding="utf-8", errors="strict", newline="\n", write_through=True)

    def getvalue(self):
        self.flush()
        return self.buffer.getvalue().decode("utf-8")

    def isatty(self):
        return False


def run_inprocess(argv, stdin_lines):
    """-> dict(status, exc, out, err, consumed)"""
    import importlib
    mod = importlib.import_module("cvss.cvss_calculator")
    fake = interact.FakeStdin(stdin_lines or [])
    old = (sys.argv, sys.stdin, sys.stdout, sys.stderr)
    # what a process really has: text layers over byte streams, UTF-8 and strict (a str that cannot be encoded - e.g. an
    # undecodable byte of the command line, carried as a lone surrogate - makes print() fail there, unlike on a StringIO)
    out, err = Utf8Capture(), Utf8Capture()
    sys.argv = ["cvss_calculator"] + list(argv)
    sys.stdin, sys.stdout, sys.stderr = fake, out, err
    status, exc = 0, None
    try:
        try:
            rv = mod.main()
            if rv is not None and rv != 0:
                status = rv          # the installed console script does sys.exit(main()): a return value IS the exit status
        except SystemExit as e:
            status = e.code if e.code is not None else 0
        except BaseException as e:  # noqa
            exc = "%s: %s" % (type(e).__name__, str(e)[:200])
            status = 1
    finally:
        sys.argv, sys.stdin, sys.stdout, sys.stderr = old
    return {"status": status, "exc": exc, "out": out.getvalue(), "err": err.getvalue(), "consumed": fake.consumed}


def run_pty(argv, cols, rows, python=None, timeout=20, console_script=False, stdin_lines=None, env_extra=None):
    """
    the calculator as a child whose standard input and output are a pseudo-terminal with a real window size (what a user at an
    80-column terminal has): output that is folded, truncated or decorated for the terminal shows only there
    """
    import fcntl
    import pty
    import select
    import struct
    import termios
    import time
    env = dict(os.environ)
    env["PYTHONPATH"] = runner.REPO
    env["PYTHONIOENCODING"] = "utf-8"
    env.pop("PYTHONHASHSEED", None)
    env.pop("COLUMNS", None)
    env.pop("LINES", None)
    env["TERM"] = "xterm"
    for k, v in (env_extra or {}).items():
        if v is None:
            env.pop(k, None)
        else:
            env[k] = v
    launcher = ["-m", "cvss.cvss_calculator"]
    if console_script:
        launcher = ["-c", "import sys; from cvss.cvss_calculator import main; sys.argv[0] = 'cvss_calculator'; sys.exit(main())"]
    master, slave = pty.openpty()
    try:
        fcntl.ioctl(slave, termios.TIOCSWINSZ, struct.pack("HHHH", rows, cols, 0, 0))
        attrs = termios.tcgetattr(slave)
        attrs[1] &= ~termios.ONLCR          # no NL -> CR NL translation: the bytes the program wrote
        attrs[3] &= ~termios.ECHO           # what is typed is not copied into the output
        termios.tcsetattr(slave, termios.TCSANOW, attrs)
        p = subprocess.Popen([python or sys.executable] + launcher + list(argv), stdin=slave, stdout=slave, stderr=subprocess.PIPE, env=env, cwd="/",
                             close_fds=True)
        os.close(slave)
        slave = None
        if stdin_lines:
            os.write(master, ("".join(l + "\n" for l in stdin_lines)).encode("ascii", "replace"))     # typed ahead: the line discipline keeps it
        chunks = []
        end = time.time() + timeout
        while time.time() < end:
            r, _, _ = select.select([master], [], [], 0.2)
            if r:
                try:
                    data = os.read(master, 65536)
                except OSError:
                    break
                if not data:
                    break
                chunks.append(data)
            elif p.poll() is not None:
                # the child is gone: take what it wrote between the last look and its end
                while True:
                    r, _, _ = select.select([master], [], [], 0.05)
                    if not r:
                        break
                    try:
                        data = os.read(master, 65536)
                    except OSError:
                        break
                    if not data:
                        break
                    chunks.append(data)
                break
        timed_out = False
        try:
            err = p.communicate(timeout=5)[1]
        except subprocess.TimeoutExpired:
            timed_out = True
            p.kill()
            err = p.communicate()[1]
        return {"status": None if timed_out else p.returncode, "exc": None, "out": b"".join(chunks).decode("utf-8", "replace"), "err": err.decode("utf-8", "replace")}
    finally:
        os.close(master)
        if slave is not None:
            os.close(slave)


def can_be_argv(argv):
    """can these strings be handed to a child process? (no NUL, only surrogates that stand for undecodable bytes)"""
    try:
        return all("\x00" not in a and os.fsencode(a) is not None for a in argv)
    except (UnicodeError, ValueError):
        return False


def run_subprocess(argv, stdin_lines, python=None, timeout=60, console_script=False, env_extra=None, plant=None):
    """
    env_extra: environment variables of the child (None value = unset); plant: (relative path, content) - the child runs in a
    fresh directory that holds that file (a program that treats its arguments as file names would find it)
    """
    import shutil
    import tempfile
    env = dict(os.environ)
    env["PYTHONPATH"] = runner.REPO
    env["PYTHONIOENCODING"] = "utf-8"
    env.pop("PYTHONHASHSEED", None)
    for k, v in (env_extra or {}).items():
        if v is None:
            env.pop(k, None)
        else:
            env[k] = v
    cwd, tmp = "/", None
    if plant:
        tmp = tempfile.mkdtemp(prefix="vfcwd")
        try:
            rel, content = plant
            path = os.path.normpath(os.path.join(tmp, rel))
            if not path.startswith(tmp + os.sep):
                raise OSError("outside")
            os.makedirs(os.path.dirname(path), exist_ok=True)
            with open(path, "w") as f:
                f.write(content)
            cwd = tmp
        except (OSError, ValueError, UnicodeError):
            cwd = tmp          # not a usable file name: an empty directory is as good
    launcher = ["-m", "cvss.cvss_calculator"]
    if console_script:
        # what setup.py's console_scripts entry point generates
        launcher = ["-c", "import sys; from cvss.cvss_calculator import main; sys.argv[0] = 'cvss_calculator'; sys.exit(main())"]
    try:
        p = subprocess.run([python or sys.executable] + launcher + list(argv),
                           input=("".join(l + "\n" for l in (stdin_lines or []))).encode("utf-8", "surrogateescape"),    # U+DC80.. = raw bytes
                           stdout=subprocess.PIPE, stderr=subprocess.PIPE, env=env, timeout=timeout, cwd=cwd)
    finally:
        if tmp:
            shutil.rmtree(tmp, ignore_errors=True)
    return {"status": p.returncode, "exc": None, "out": p.stdout.decode("utf-8", "replace"),
            "err": p.stderr.decode("utf-8", "replace")}
