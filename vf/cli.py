# -*- coding: utf-8 -*-
"""Running the command-line calculator in-process and as a subprocess."""
from __future__ import unicode_literals

import io
import os
import subprocess
import sys

from . import interact, runner


def run_inprocess(argv, stdin_lines):
    """-> dict(status, exc, out, err, consumed)"""
    import importlib
    mod = importlib.import_module("cvss.cvss_calculator")
    fake = interact.FakeStdin(stdin_lines or [])
    old = (sys.argv, sys.stdin, sys.stdout, sys.stderr)
    out, err = io.StringIO(), io.StringIO()
    sys.argv = ["cvss_calculator"] + list(argv)
    sys.stdin, sys.stdout, sys.stderr = fake, out, err
    status, exc = 0, None
    try:
        try:
            rv = mod.main()
            if rv is not None and rv != 0:
                status = rv          # the installed console script does sys.exit(main()): a return value IS the exit status
        except SystemExit as e:
            status = e.code if e.code is not None else 0
        except BaseException as e:  # noqa
            exc = "%s: %s" % (type(e).__name__, str(e)[:200])
            status = 1
    finally:
        sys.argv, sys.stdin, sys.stdout, sys.stderr = old
    return {"status": status, "exc": exc, "out": out.getvalue(), "err": err.getvalue(), "consumed": fake.consumed}


def run_subprocess(argv, stdin_lines, python=None, timeout=60, console_script=False):
    env = dict(os.environ)
    env["PYTHONPATH"] = runner.REPO
    env["PYTHONIOENCODING"] = "utf-8"
    env.pop("PYTHONHASHSEED", None)
    launcher = ["-m", "cvss.cvss_calculator"]
    if console_script:
        # what setup.py's console_scripts entry point generates
        launcher = ["-c", "import sys; from cvss.cvss_calculator import main; sys.argv[0] = 'cvss_calculator'; sys.exit(main())"]
    p = subprocess.run([python or sys.executable] + launcher + list(argv),
                       input=("".join(l + "\n" for l in (stdin_lines or []))).encode("utf-8"),
                       stdout=subprocess.PIPE, stderr=subprocess.PIPE, env=env, timeout=timeout, cwd="/")
    return {"status": p.returncode, "exc": None, "out": p.stdout.decode("utf-8", "replace"),
            "err": p.stderr.decode("utf-8", "replace")}
