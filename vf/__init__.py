import os as _os
import sys as _sys

if _os.environ.get("VERIF_PYDECIMAL") == "1" and "decimal" not in _sys.modules and "_decimal" not in _sys.modules:
    # interpreter-mode stage "pure-Python decimal": what a build without the C accelerator (or another implementation of
    # Python) runs on; must be arranged before anything imports decimal
    _sys.modules["_decimal"] = None
