# -*- coding: utf-8 -*-
"""
Replayable score checks shared by C01/C02/C03/C09 and failure minimisation for enumerators.
A check takes {"vector": str} and compares the library with the exact oracle.
"""
from __future__ import unicode_literals

import math

from . import oracles, ref, spec
from .runner import failure


def lib_class(ver):
    import cvss
    return {"2": cvss.CVSS2, "3": cvss.CVSS3, "4": cvss.CVSS4}[ver]


def expected_scores(ver, vector):
    """oracle scores (tuple of Fractions / None) for an accepted vector"""
    prefix, m = ref.parse(ver, vector)
    if ver == "2":
        return oracles.score2(ref.effective2(m))
    if ver == "3":
        return oracles.score3(ref.minor(prefix), ref.effective3(m))
    return (oracles.score4(ref.effective4(m)),)


def as_floats(t):
    return tuple(None if x is None else float(x) for x in t)


def well_formed_float(x):
    return type(x) is float and not (x == 0 and math.copysign(1, x) < 0) and repr(x) == "%.1f" % x


def check_score(ver):
    def fn(inp):
        v = inp["vector"]
        from .runner import in_thread
        exp = as_floats(expected_scores(ver, v))
        C = lib_class(ver)
        fails = []
        slots = ("base", "temporal", "environmental")
        # the score is evaluated in the calling thread and in a fresh thread (fresh thread-local state)
        for where, got in (("calling thread", C(v).scores()), ("fresh thread", in_thread(lambda: C(v).scores()))):
            if not isinstance(got, tuple) or len(got) != len(exp):
                return [failure(list(exp), repr(got), note="scores() shape")]
            for i, (g, e) in enumerate(zip(got, exp)):
                if e is None:
                    if g is not None:
                        fails.append(failure(None, g, note="%s score must be None (undefined group)" % slots[i]))
                elif g is None or g != e or not well_formed_float(g):
                    fails.append(failure(e, repr(g), note="%s score, computed in the %s" % (slots[i], where)))
            if fails:
                break
        return fails
    return fn


def minimise_vector(ver, vector, still_fails):
    """
    greedy reduction: drop optional metrics / reset mandatory metrics to their first value / official
    order, keeping every step on which still_fails(vector) stays true.
    """
    V = spec.VERS[ver]
    try:
        prefix, m = ref.parse(ver, vector)
    except ValueError:
        return vector
    order = [k for k in V.order if k in m]
    cand = ref.build(prefix, m, order)
    if still_fails(cand):
        vector = cand
    else:
        order = [f.split(":")[0] for f in vector[len(prefix):].split("/")]
    changed = True
    while changed:
        changed = False
        for k in list(order):
            if k in V.mandatory:
                first = V.table[k][0]
                if m[k] != first:
                    m2 = dict(m)
                    m2[k] = first
                    c = ref.build(prefix, m2, order)
                    if still_fails(c):
                        m, vector, changed = m2, c, True
            else:
                m2 = dict(m)
                del m2[k]
                o2 = [x for x in order if x != k]
                c = ref.build(prefix, m2, o2)
                if still_fails(c):
                    m, order, vector, changed = m2, o2, c, True
    return vector


def record_bad_vectors(part, ver, check_name, fn, bad_vectors, limit=40):
    """turn raw mismatching vectors into minimised violations (or harness errors)"""
    seen = set()
    for v in bad_vectors[:limit]:
        def still(c):
            try:
                return bool(fn({"vector": c}))
            except Exception:
                return True
        try:
            fails = fn({"vector": v})
        except Exception as e:  # library raised on a valid vector
            fails = [failure("scores", "%s: %s" % (type(e).__name__, e))]
        if not fails:
            part.harness_errors.append("enumerator flagged %r but the replayable check passes (realiser bug?)" % v)
            continue
        small = minimise_vector(ver, v, still)
        if small in seen:
            continue
        seen.add(small)
        try:
            fails = fn({"vector": small})
        except Exception as e:
            fails = [failure("scores", "%s: %s" % (type(e).__name__, e))]
        part.add_failures(check_name, {"vector": small, "found_as": v}, fails)
