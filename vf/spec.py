# -*- coding: utf-8 -*-
"""
PINNED, INDEPENDENT specification data.  Nothing in this module is imported from cvss.*: the tables
are typed from the CVSS v2 guide, the v3.0/v3.1 specification documents, the v4.0 specification
document and FIRST's JSON schemas (pinned copies under spec_data/schemas).
"""
from __future__ import unicode_literals

import json
import os
from collections import OrderedDict
from fractions import Fraction as F

HERE = os.path.dirname(os.path.abspath(__file__))
DATA = os.path.join(HERE, "spec_data")


def _od(pairs):
    return OrderedDict(pairs)


# --------------------------------------------------------------------------------------------------
# Metric tables: metric -> tuple of legal values.  Key order = official (specification) order of the
# vector string; for v4 that is Base, Threat, Environmental (requirements, modified), Supplemental.
# --------------------------------------------------------------------------------------------------
V2 = _od([
    ("AV", ("L", "A", "N")), ("AC", ("H", "M", "L")), ("Au", ("M", "S", "N")),
    ("C", ("N", "P", "C")), ("I", ("N", "P", "C")), ("A", ("N", "P", "C")),
    ("E", ("U", "POC", "F", "H", "ND")), ("RL", ("OF", "TF", "W", "U", "ND")),
    ("RC", ("UC", "UR", "C", "ND")),
    ("CDP", ("N", "L", "LM", "MH", "H", "ND")), ("TD", ("N", "L", "M", "H", "ND")),
    ("CR", ("L", "M", "H", "ND")), ("IR", ("L", "M", "H", "ND")), ("AR", ("L", "M", "H", "ND")),
])
V3 = _od([
    ("AV", ("N", "A", "L", "P")), ("AC", ("L", "H")), ("PR", ("N", "L", "H")), ("UI", ("N", "R")),
    ("S", ("U", "C")), ("C", ("H", "L", "N")), ("I", ("H", "L", "N")), ("A", ("H", "L", "N")),
    ("E", ("X", "H", "F", "P", "U")), ("RL", ("X", "U", "W", "T", "O")), ("RC", ("X", "C", "R", "U")),
    ("CR", ("X", "H", "M", "L")), ("IR", ("X", "H", "M", "L")), ("AR", ("X", "H", "M", "L")),
    ("MAV", ("X", "N", "A", "L", "P")), ("MAC", ("X", "L", "H")), ("MPR", ("X", "N", "L", "H")),
    ("MUI", ("X", "N", "R")), ("MS", ("X", "U", "C")),
    ("MC", ("X", "H", "L", "N")), ("MI", ("X", "H", "L", "N")), ("MA", ("X", "H", "L", "N")),
])
V4 = _od([
    ("AV", ("N", "A", "L", "P")), ("AC", ("L", "H")), ("AT", ("N", "P")), ("PR", ("N", "L", "H")),
    ("UI", ("N", "P", "A")),
    ("VC", ("H", "L", "N")), ("VI", ("H", "L", "N")), ("VA", ("H", "L", "N")),
    ("SC", ("H", "L", "N")), ("SI", ("H", "L", "N")), ("SA", ("H", "L", "N")),
    ("E", ("X", "A", "P", "U")),
    ("CR", ("X", "H", "M", "L")), ("IR", ("X", "H", "M", "L")), ("AR", ("X", "H", "M", "L")),
    ("MAV", ("X", "N", "A", "L", "P")), ("MAC", ("X", "L", "H")), ("MAT", ("X", "N", "P")),
    ("MPR", ("X", "N", "L", "H")), ("MUI", ("X", "N", "P", "A")),
    ("MVC", ("X", "H", "L", "N")), ("MVI", ("X", "H", "L", "N")), ("MVA", ("X", "H", "L", "N")),
    ("MSC", ("X", "H", "L", "N")), ("MSI", ("X", "S", "H", "L", "N")), ("MSA", ("X", "S", "H", "L", "N")),
    ("S", ("X", "N", "P")), ("AU", ("X", "N", "Y")), ("R", ("X", "A", "U", "I")),
    ("V", ("X", "D", "C")), ("RE", ("X", "L", "M", "H")),
    ("U", ("X", "Clear", "Green", "Amber", "Red")),
])


class Version(object):
    def __init__(self, key, table, mandatory, prefixes, nd, groups, cls_name):
        self.key = key                      # "2", "3", "4"
        self.table = table                  # OrderedDict metric -> tuple(values), official order
        self.values = dict((m, frozenset(v)) for m, v in table.items())  # frozensets, never strings
        self.mandatory = tuple(mandatory)
        self.optional = tuple(m for m in table if m not in mandatory)
        self.prefixes = tuple(prefixes)
        self.nd = nd
        self.groups = groups                # name -> tuple(metrics) in specification order
        self.cls_name = cls_name
        self.order = tuple(table)

    def __repr__(self):
        return "<Version %s>" % self.key


VERS = {
    "2": Version("2", V2, ["AV", "AC", "Au", "C", "I", "A"], [""], "ND",
                 _od([("temporal", ("E", "RL", "RC")),
                      ("environmental", ("CDP", "TD", "CR", "IR", "AR"))]), "CVSS2"),
    "3": Version("3", V3, ["AV", "AC", "PR", "UI", "S", "C", "I", "A"], ["CVSS:3.0/", "CVSS:3.1/"], "X",
                 _od([("temporal", ("E", "RL", "RC")),
                      ("environmental", ("CR", "IR", "AR", "MAV", "MAC", "MPR", "MUI", "MS", "MC", "MI",
                                         "MA"))]), "CVSS3"),
    "4": Version("4", V4, ["AV", "AC", "AT", "PR", "UI", "VC", "VI", "VA", "SC", "SI", "SA"],
                 ["CVSS:4.0/"], "X",
                 _od([("threat", ("E",)),
                      ("environmental", ("CR", "IR", "AR", "MAV", "MAC", "MAT", "MPR", "MUI", "MVC", "MVI",
                                         "MVA", "MSC", "MSI", "MSA")),
                      ("supplemental", ("S", "AU", "R", "V", "RE", "U"))]), "CVSS4"),
}
VKEYS = ("2", "3", "4")

# Values the specifications declare equivalent to Not Defined (C06 clause b)
ND_EQUIV = {
    "2": {"E": "H", "RL": "U", "RC": "C", "CDP": "N", "TD": "H", "CR": "M", "IR": "M", "AR": "M"},
    "3": {"E": "H", "RL": "U", "RC": "C", "CR": "M", "IR": "M", "AR": "M"},
    "4": {"E": "A", "CR": "H", "IR": "H", "AR": "H"},
}
# Modified metric -> base metric
MODIFIED = {
    "3": dict(("M" + m, m) for m in ("AV", "AC", "PR", "UI", "S", "C", "I", "A")),
    "4": dict(("M" + m, m) for m in ("AV", "AC", "AT", "PR", "UI", "VC", "VI", "VA", "SC", "SI", "SA")),
}
SUPPLEMENTAL4 = ("S", "AU", "R", "V", "RE", "U")

# --------------------------------------------------------------------------------------------------
# Weights (exact rationals)
# --------------------------------------------------------------------------------------------------
W2 = {
    "AV": {"L": F("0.395"), "A": F("0.646"), "N": F(1)},
    "AC": {"H": F("0.35"), "M": F("0.61"), "L": F("0.71")},
    "Au": {"M": F("0.45"), "S": F("0.56"), "N": F("0.704")},
    "CIA": {"N": F(0), "P": F("0.275"), "C": F("0.660")},
    "E": {"U": F("0.85"), "POC": F("0.9"), "F": F("0.95"), "H": F(1), "ND": F(1)},
    "RL": {"OF": F("0.87"), "TF": F("0.90"), "W": F("0.95"), "U": F(1), "ND": F(1)},
    "RC": {"UC": F("0.9"), "UR": F("0.95"), "C": F(1), "ND": F(1)},
    "CDP": {"N": F(0), "L": F("0.1"), "LM": F("0.3"), "MH": F("0.4"), "H": F("0.5"), "ND": F(0)},
    "TD": {"N": F(0), "L": F("0.25"), "M": F("0.75"), "H": F(1), "ND": F(1)},
    "REQ": {"L": F("0.5"), "M": F(1), "H": F("1.51"), "ND": F(1)},
}
W3 = {
    "AV": {"N": F("0.85"), "A": F("0.62"), "L": F("0.55"), "P": F("0.2")},
    "AC": {"L": F("0.77"), "H": F("0.44")},
    "PRU": {"N": F("0.85"), "L": F("0.62"), "H": F("0.27")},
    "PRC": {"N": F("0.85"), "L": F("0.68"), "H": F("0.5")},
    "UI": {"N": F("0.85"), "R": F("0.62")},
    "CIA": {"H": F("0.56"), "L": F("0.22"), "N": F(0)},
    "E": {"X": F(1), "H": F(1), "F": F("0.97"), "P": F("0.94"), "U": F("0.91")},
    "RL": {"X": F(1), "U": F(1), "W": F("0.97"), "T": F("0.96"), "O": F("0.95")},
    "RC": {"X": F(1), "C": F(1), "R": F("0.96"), "U": F("0.92")},
    "REQ": {"X": F(1), "H": F("1.5"), "M": F(1), "L": F("0.5")},
}

# --------------------------------------------------------------------------------------------------
# Severity orders, LEAST severe first (C14).  Only metrics that enter scoring.
# --------------------------------------------------------------------------------------------------
SEV2 = _od([("AV", "LAN"), ("AC", "HML"), ("Au", "MSN"), ("C", "NPC"), ("I", "NPC"), ("A", "NPC"),
            ("E", ("U", "POC", "F", "H")), ("RL", ("OF", "TF", "W", "U")), ("RC", ("UC", "UR", "C"))])
SEV3 = _od([("AV", "PLAN"), ("AC", "HL"), ("PR", "HLN"), ("UI", "RN"), ("S", "UC"),
            ("C", "NLH"), ("I", "NLH"), ("A", "NLH"),
            ("E", "UPFH"), ("RL", "OTWU"), ("RC", "URC"),
            ("CR", "LMH"), ("IR", "LMH"), ("AR", "LMH")])
# v4: effective metrics (SI/SA include Safety, reachable through MSI/MSA only)
SEV4 = _od([("AV", "PLAN"), ("PR", "HLN"), ("UI", "APN"), ("AC", "HL"), ("AT", "PN"),
            ("VC", "NLH"), ("VI", "NLH"), ("VA", "NLH"),
            ("SC", "NLH"), ("SI", "NLHS"), ("SA", "NLHS"),
            ("CR", "LMH"), ("IR", "LMH"), ("AR", "LMH"), ("E", "UPA")])

# --------------------------------------------------------------------------------------------------
# Qualitative severity scales
# --------------------------------------------------------------------------------------------------


def band34(score):
    """v3/v4 official qualitative scale; score is a float or Fraction with one decimal"""
    t = int(round(score * 10))
    if t == 0:
        return "None"
    if t <= 39:
        return "Low"
    if t <= 69:
        return "Medium"
    if t <= 89:
        return "High"
    return "Critical"


def band2(score):
    """NVD scale for v2; 'None' for an undefined score"""
    if score is None:
        return "None"
    t = int(round(score * 10))
    if t <= 39:
        return "Low"
    if t <= 69:
        return "Medium"
    return "High"


# --------------------------------------------------------------------------------------------------
# JSON: field names and value names.  Value names are the upper-snake names of the FIRST schemas.
# Field names for v2/v3 are the schema's; for v4 the property statement does not fix field names, and
# the library's v4 names are not the schema's (the schema tolerates additional properties), so the v4
# field names are pinned as observed at the pinned commit: a later rename shows up as a missing field.
# --------------------------------------------------------------------------------------------------
JSON_KEYS = {
    "2": _od([("AV", "accessVector"), ("AC", "accessComplexity"), ("Au", "authentication"),
              ("C", "confidentialityImpact"), ("I", "integrityImpact"), ("A", "availabilityImpact"),
              ("E", "exploitability"), ("RL", "remediationLevel"), ("RC", "reportConfidence"),
              ("CDP", "collateralDamagePotential"), ("TD", "targetDistribution"),
              ("CR", "confidentialityRequirement"), ("IR", "integrityRequirement"),
              ("AR", "availabilityRequirement")]),
    "3": _od([("AV", "attackVector"), ("AC", "attackComplexity"), ("PR", "privilegesRequired"),
              ("UI", "userInteraction"), ("S", "scope"), ("C", "confidentialityImpact"),
              ("I", "integrityImpact"), ("A", "availabilityImpact"),
              ("E", "exploitCodeMaturity"), ("RL", "remediationLevel"), ("RC", "reportConfidence"),
              ("CR", "confidentialityRequirement"), ("IR", "integrityRequirement"),
              ("AR", "availabilityRequirement"),
              ("MAV", "modifiedAttackVector"), ("MAC", "modifiedAttackComplexity"),
              ("MPR", "modifiedPrivilegesRequired"), ("MUI", "modifiedUserInteraction"),
              ("MS", "modifiedScope"), ("MC", "modifiedConfidentialityImpact"),
              ("MI", "modifiedIntegrityImpact"), ("MA", "modifiedAvailabilityImpact")]),
    "4": _od([("AV", "attackVector"), ("AC", "attackComplexity"), ("AT", "attackRequirement"),
              ("PR", "privilegesRequired"), ("UI", "userInteraction"),
              ("VC", "vulnerableSystemImpactConfidentiality"), ("VI", "vulnerableSystemImpactIntegrity"),
              ("VA", "vulnerableSystemImpactAvailability"),
              ("SC", "subsequentSystemImpactConfidentiality"), ("SI", "subsequentSystemImpactIntegrity"),
              ("SA", "subsequentSystemImpactAvailability"),
              ("E", "exploitMaturity"),
              ("CR", "confidentialityRequirements"), ("IR", "integrityRequirements"),
              ("AR", "availabilityRequirements"),
              ("MAV", "modifiedAttackVector"), ("MAC", "modifiedAttackComplexity"),
              ("MAT", "modifiedAttackRequirement"), ("MPR", "modifiedPrivilegesRequired"),
              ("MUI", "modifiedUserInteraction"),
              ("MVC", "modifiedVulnerableSystemImpactConfidentiality"),
              ("MVI", "modifiedVulnerableSystemImpactIntegrity"),
              ("MVA", "modifiedVulnerableSystemImpactAvailability"),
              ("MSC", "modifiedSubsequentSystemImpactConfidentiality"),
              ("MSI", "modifiedSubsequentSystemImpactIntegrity"),
              ("MSA", "modifiedSubsequentSystemImpactAvailability"),
              ("S", "safety"), ("AU", "automatable"), ("R", "recovery"), ("V", "valueDensity"),
              ("RE", "vulnerabilityResponseEffort"), ("U", "providerUrgency")]),
}

_CIA2 = {"N": "NONE", "P": "PARTIAL", "C": "COMPLETE"}
_REQ2 = {"L": "LOW", "M": "MEDIUM", "H": "HIGH", "ND": "NOT_DEFINED"}
_CIA3 = {"H": "HIGH", "L": "LOW", "N": "NONE"}
_REQ3 = {"X": "NOT_DEFINED", "H": "HIGH", "M": "MEDIUM", "L": "LOW"}
_AV3 = {"N": "NETWORK", "A": "ADJACENT_NETWORK", "L": "LOCAL", "P": "PHYSICAL"}
_AV4 = {"N": "NETWORK", "A": "ADJACENT", "L": "LOCAL", "P": "PHYSICAL"}
# a value may map to a tuple of accepted names where library wording and schema wording differ on a
# field the schema does not constrain (different key): both name the same value
_SUBM4 = {"H": "HIGH", "L": "LOW", "N": ("NEGLIGIBLE", "NONE")}


def _x(d):
    r = dict(d)
    r["X"] = "NOT_DEFINED"
    return r


VALUE_NAMES = {
    "2": {
        "AV": {"L": "LOCAL", "A": "ADJACENT_NETWORK", "N": "NETWORK"},
        "AC": {"H": "HIGH", "M": "MEDIUM", "L": "LOW"},
        "Au": {"M": "MULTIPLE", "S": "SINGLE", "N": "NONE"},
        "C": _CIA2, "I": _CIA2, "A": _CIA2,
        "E": {"U": "UNPROVEN", "POC": "PROOF_OF_CONCEPT", "F": "FUNCTIONAL", "H": "HIGH",
              "ND": "NOT_DEFINED"},
        "RL": {"OF": "OFFICIAL_FIX", "TF": "TEMPORARY_FIX", "W": "WORKAROUND", "U": "UNAVAILABLE",
               "ND": "NOT_DEFINED"},
        "RC": {"UC": "UNCONFIRMED", "UR": "UNCORROBORATED", "C": "CONFIRMED", "ND": "NOT_DEFINED"},
        "CDP": {"N": "NONE", "L": "LOW", "LM": "LOW_MEDIUM", "MH": "MEDIUM_HIGH", "H": "HIGH",
                "ND": "NOT_DEFINED"},
        "TD": {"N": "NONE", "L": "LOW", "M": "MEDIUM", "H": "HIGH", "ND": "NOT_DEFINED"},
        "CR": _REQ2, "IR": _REQ2, "AR": _REQ2,
    },
    "3": {
        "AV": _AV3, "AC": {"L": "LOW", "H": "HIGH"}, "PR": {"N": "NONE", "L": "LOW", "H": "HIGH"},
        "UI": {"N": "NONE", "R": "REQUIRED"}, "S": {"U": "UNCHANGED", "C": "CHANGED"},
        "C": _CIA3, "I": _CIA3, "A": _CIA3,
        "E": {"X": "NOT_DEFINED", "H": "HIGH", "F": "FUNCTIONAL", "P": "PROOF_OF_CONCEPT",
              "U": "UNPROVEN"},
        "RL": {"X": "NOT_DEFINED", "U": "UNAVAILABLE", "W": "WORKAROUND", "T": "TEMPORARY_FIX",
               "O": "OFFICIAL_FIX"},
        "RC": {"X": "NOT_DEFINED", "C": "CONFIRMED", "R": "REASONABLE", "U": "UNKNOWN"},
        "CR": _REQ3, "IR": _REQ3, "AR": _REQ3,
        "MAV": _x(_AV3), "MAC": _x({"L": "LOW", "H": "HIGH"}),
        "MPR": _x({"N": "NONE", "L": "LOW", "H": "HIGH"}), "MUI": _x({"N": "NONE", "R": "REQUIRED"}),
        "MS": _x({"U": "UNCHANGED", "C": "CHANGED"}),
        "MC": _x(_CIA3), "MI": _x(_CIA3), "MA": _x(_CIA3),
    },
    "4": {
        "AV": _AV4, "AC": {"L": "LOW", "H": "HIGH"}, "AT": {"N": "NONE", "P": "PRESENT"},
        "PR": {"N": "NONE", "L": "LOW", "H": "HIGH"}, "UI": {"N": "NONE", "P": "PASSIVE", "A": "ACTIVE"},
        "VC": _CIA3, "VI": _CIA3, "VA": _CIA3, "SC": _CIA3, "SI": _CIA3, "SA": _CIA3,
        "E": {"X": "NOT_DEFINED", "A": "ATTACKED", "P": "PROOF_OF_CONCEPT", "U": "UNREPORTED"},
        "CR": _REQ3, "IR": _REQ3, "AR": _REQ3,
        "MAV": _x(_AV4), "MAC": _x({"L": "LOW", "H": "HIGH"}), "MAT": _x({"N": "NONE", "P": "PRESENT"}),
        "MPR": _x({"N": "NONE", "L": "LOW", "H": "HIGH"}),
        "MUI": _x({"N": "NONE", "P": "PASSIVE", "A": "ACTIVE"}),
        "MVC": _x(_CIA3), "MVI": _x(_CIA3), "MVA": _x(_CIA3),
        # the modified subsequent-system metrics: see c11 for the two accepted wordings of N
        "MSC": _x(_SUBM4), "MSI": _x(dict(_SUBM4, S="SAFETY")), "MSA": _x(dict(_SUBM4, S="SAFETY")),
        "S": {"X": "NOT_DEFINED", "N": "NEGLIGIBLE", "P": "PRESENT"},
        "AU": {"X": "NOT_DEFINED", "N": "NO", "Y": "YES"},
        "R": {"X": "NOT_DEFINED", "A": "AUTOMATIC", "U": "USER", "I": ("IRRECOVERABLE", "INRECOVERABLE")},
        "V": {"X": "NOT_DEFINED", "D": "DIFFUSE", "C": "CONCENTRATED"},
        "RE": {"X": "NOT_DEFINED", "L": "LOW", "M": "MODERATE", "H": "HIGH"},
        "U": {"X": "NOT_DEFINED", "Clear": "CLEAR", "Green": "GREEN", "Amber": "AMBER", "Red": "RED"},
    },
}
JSON_VERSION = {"2": "2.0", "3.0": "3.0", "3.1": "3.1", "4": "4.0"}

# Full metric names (interactive builder prints them; C16 only requires the name to appear)
FULL_NAMES = {
    "2": {"AV": "Access Vector", "AC": "Access Complexity", "Au": "Authentication",
          "C": "Confidentiality Impact", "I": "Integrity Impact", "A": "Availability Impact",
          "E": "Exploitability", "RL": "Remediation Level", "RC": "Report Confidence",
          "CDP": "Collateral Damage Potential", "TD": "Target Distribution",
          "CR": "Confidentiality Requirement", "IR": "Integrity Requirement",
          "AR": "Availability Requirement"},
}

# --------------------------------------------------------------------------------------------------
# Schemas and official regexes (pinned copies)
# --------------------------------------------------------------------------------------------------
_SCHEMA_CACHE = {}


def schema(ver):
    """ver in '2.0','3.0','3.1','4.0'; loaded with Decimal numbers so multipleOf is exact"""
    from decimal import Decimal
    if ver not in _SCHEMA_CACHE:
        with open(os.path.join(DATA, "schemas", "cvss-v%s.json" % ver)) as f:
            _SCHEMA_CACHE[ver] = json.loads(f.read(), parse_float=Decimal)
    return _SCHEMA_CACHE[ver]


def vector_pattern(ver):
    return schema(ver)["properties"]["vectorString"]["pattern"]


def lookup4():
    with open(os.path.join(DATA, "lookup4.json")) as f:
        return dict((k, F(v)) for k, v in json.load(f).items())


def official_vectors():
    """
    Official-calculator expectations shipped with the repository's test data (pinned copies).
    Yields (file, version key, vector, tuple of expected scores as Fractions or None)
    """
    import re
    files = [("vectors_simple2", "2"), ("vectors_calculator2", "2"), ("vectors_cvsslib2", "2"),
             ("vectors_simple3", "3"), ("vectors_simple31", "3"), ("vectors_calculator3", "3"),
             ("vectors_cvsslib3", "3"), ("vectors_simple4", "4"), ("vectors_security4", "4"),
             ("vectors_supplemental4", "4"), ("vectors_threat4", "4")]
    for name, ver in files:
        with open(os.path.join(DATA, "official", name)) as f:
            for line in f:
                line = line.strip()
                if not line:
                    continue
                vec, exp = line.split(" - ")
                nums = re.findall(r"None|[0-9.]+", exp)
                yield name, ver, vec, tuple(None if n == "None" else F(n) for n in nums)
