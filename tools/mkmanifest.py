#!/usr/bin/env python3
"""Regenerates /verif/MANIFEST.json from the table below (run after adding a property module)."""
import json
import os

HERE = os.path.dirname(os.path.dirname(os.path.abspath(__file__)))

# id -> (technique, level text, level note, design ref)
CHECKS = {
    "C01": ("exhaustive enumeration of the v3 score quotient with seeded random spellings + Hypothesis, exact Fraction oracle",
            "Every effective v3.0/v3.1 assignment class (thorough: all 518,400 base/temporal and 6,718,464 environmental classes) is scored by the library through a randomly spelled vector and compared with an exact rational evaluation of the specification equations; exhaustive over the quotient, sampled over the spellings above each class.",
            "Trusts the Fraction oracle typed from the specification (self-tested against the official-calculator vectors pinned from the repository) and samples the fibre above each class (C05/C06 attack fibre invariance).", "4/C01"),
    "C02": ("exhaustive enumeration of the 15,116,544 effective v4 assignments with seeded random spellings + Hypothesis, exact Fraction macrovector oracle",
            "Every effective v4.0 assignment (thorough) / a macrovector-stratified 1.5M sample (quick) is scored through a randomly realised vector (base vs Modified metric, X/omitted defaults, supplemental noise, shuffled order) and compared with an exact evaluation of the macrovector/interpolation algorithm whose highest-severity vectors and depths are derived from the EQ definitions.",
            "The 270-entry lookup table is a pinned copy (cannot be re-derived offline); oracle self-tested against 1,694 official v4 vectors; fibre sampled.", "4/C02"),
    "C03": ("exhaustive enumeration of the v2 score quotient (729 x 49 x 541 classes) with seeded random spellings + Hypothesis, exact Fraction oracle",
            "Every v2 class incl. the defined/undefined group distinction is scored through a random spelling and compared with the v2 guide evaluated in exact arithmetic (None pattern, float well-formedness, no -0.0).",
            "Trusts the Fraction oracle (self-tested against the official vectors); fibre above each class sampled.", "4/C03"),
}

PENDING_REASON = "check not built yet in this session (planned, see DESIGN.md section 4); not claimed until its machinery is committed"
ALL = ["C%02d" % i for i in range(1, 21)]


def main():
    checks = []
    for pid in ALL:
        if pid not in CHECKS:
            continue
        if not os.path.exists(os.path.join(HERE, "vf", "props", pid.lower() + ".py")):
            continue
        tech, text, note, ref = CHECKS[pid]
        checks.append({
            "property_id": pid,
            "quick_cmd": "./vcheck %s quick" % pid,
            "thorough_cmd": "./vcheck %s thorough" % pid,
            "evidence_file": "/verif/evidence/%s.json" % pid,
            "replay_cmd_template": "./vcheck %s replay {path}" % pid,
            "engine": "vf",
            "level_claimed": {"category": "exploration", "text": text, "design_ref": "DESIGN.md " + ref},
            "level_note": note,
            "technique": tech,
        })
    claimed = set(c["property_id"] for c in checks)
    man = {
        "version": 1,
        "setup_cmd": "./vcheck setup",
        "hooks": {
            "guard": "CVSS_VERIF",
            "enable": "no hooks: every observation uses the public API, sys.stdin/stdout/argv, sys.settrace and subprocesses; checks import the working tree at $VERIF_REPO (default /repo) directly, nothing is built",
            "baseline_off_cmd": "cd /repo && /venv/bin/python -m pytest -ra -q -p no:cacheprovider --timeout=900 --continue-on-collection-errors",
            "source_commits": [],
            "add_only": True,
        },
        "engines": [{
            "name": "vf", "path": "/verif/vf",
            "serves_properties": sorted(claimed),
            "kind_free_text": "property-based testing and fuzzing: Hypothesis (stateless + stateful), exhaustive quotient enumerators on multiprocessing.Pool(16), atheris coverage-guided fuzzing, deterministic settrace thread scheduler, differential execution on 10 interpreters; explicit independent oracles (exact Fraction equations, reference grammar, FIRST JSON schemas)",
        }],
        "checks": checks,
        "not_applicable": [{"property_id": p, "reason": PENDING_REASON} for p in ALL if p not in claimed],
        "notes": "All checks: exit 0 held / 1 VIOLATION property=<id> replay=<path> / 2 harness problem or inconclusive. VERIF_SEED selects the pseudo-random part of every generator; VERIF_REPO (default /repo) selects the tree under test. Known findings: /verif/known_findings.txt.",
    }
    with open(os.path.join(HERE, "MANIFEST.json"), "w") as f:
        json.dump(man, f, indent=1)
        f.write("\n")
    print("claimed:", sorted(claimed))


if __name__ == "__main__":
    main()
