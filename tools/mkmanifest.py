#!/usr/bin/env python3
"""Regenerates /verif/MANIFEST.json from the table below (run after adding a property module)."""
import json
import os

HERE = os.path.dirname(os.path.dirname(os.path.abspath(__file__)))

# id -> (technique, level text, level note, design ref)
CHECKS = {
    "C01": ("exhaustive enumeration of the v3 score quotient with seeded random spellings + Hypothesis, exact Fraction oracle",
            "Every effective v3.0/v3.1 assignment class (thorough: all 518,400 base/temporal and 6,718,464 environmental classes) is scored by the library through a randomly spelled vector (and, for base/temporal classes, the plain spelling) and compared with an exact rational evaluation of the specification equations; every second unit is computed in a fresh non-main thread; exhaustive over the quotient, sampled over the spellings above each class.",
            "Trusts the Fraction oracle typed from the specification (self-tested against the official-calculator vectors pinned from the repository) and samples the fibre above each class (C05/C06 attack fibre invariance).", "4/C01"),
    "C02": ("exhaustive enumeration of the 15,116,544 effective v4 assignments with seeded random spellings + Hypothesis, exact Fraction macrovector oracle",
            "Every effective v4.0 assignment (thorough) / a macrovector-stratified 1.5M sample (quick) is scored through a randomly realised vector (base vs Modified metric, X/omitted defaults, supplemental noise, shuffled order) and compared with an exact evaluation of the macrovector/interpolation algorithm whose highest-severity vectors and depths are derived from the EQ definitions.",
            "The 270-entry lookup table is a pinned copy (cannot be re-derived offline); oracle self-tested against 1,694 official v4 vectors; fibre sampled.", "4/C02"),
    "C03": ("exhaustive enumeration of the v2 score quotient (729 x 49 x 541 classes) with seeded random spellings + Hypothesis, exact Fraction oracle",
            "Every v2 class incl. the defined/undefined group distinction is scored through a random spelling and compared with the v2 guide evaluated in exact arithmetic (None pattern, float well-formedness, no -0.0).",
            "Trusts the Fraction oracle (self-tested against the official vectors); fibre above each class sampled.", "4/C03"),
    "C04": ("Hypothesis mutation generators + complete one-edit neighbourhoods + atheris coverage-guided fuzzing, reference-acceptor oracle",
            "Strings (valid vectors, 1-3 stacked mutations from 15 operators, cross-version vectors, arbitrary text, every one-edit neighbour of seed vectors, fuzzer-grown inputs) are classified by an independent reference acceptor; the constructor must accept exactly the grammar, raise the malformed/mandatory error of its version otherwise, and never leak a foreign exception.",
            "String space is unbounded: sampled, plus complete one-edit balls around sampled seeds. Reference acceptor and metric tables are typed from the specifications.", "4/C04"),
    "C05": ("Hypothesis metamorphic test (permutation x Not-Defined toggles, whole-group shapes); exhaustive sweep of every v2/v3 assignment of the mandatory metrics x every sub-group of optional metrics omitted vs Not Defined; permutations of every mutant / one-edit-ball member the constructor accepts",
            "Two spellings of the same metric assignment (seeded permutation; any subset / a single one of the Not Defined optionals toggled) must agree on scores, severities, cleaned/RH/sub-vectors, equality both ways and hash.",
            "Sampled over vectors and respellings; every optional metric is toggled in isolation many times per run (class counters in evidence).", "4/C05"),
    "C06": ("Hypothesis metamorphic test over the five substitution clauses, self-validating pairs; exhaustive sweep of every v2/v3 assignment of the mandatory metrics x whole sub-groups under clauses (a)/(b); the other 3.x minor version scored first in half of the v3 cases",
            "Accepted vector + a non-empty subset of eligible substitutions of one clause (a)-(e); the check re-derives eligibility from the two vectors and compares exactly the scores the clause constrains. Evidence asserts that every eligible metric of every clause was substituted.",
            "Sampled; equivalence tables typed from the statement.", "4/C06"),
    "C07": ("Hypothesis single/pair/triple generators against a model key from the reference parser; copies (copy/deepcopy/pickle), objects pickled in a child process with another hash seed, and instances of a do-nothing subclass as further objects",
            "clean_vector() content, prefix handling, re-parse round trip and idempotence; == iff (version incl. minor, defined metric map) equal; hash/observables of equal objects; reflexive/symmetric/transitive; never equal to foreign values; one consistent relative metric order across all outputs of the run.",
            "Sampled over vectors and pair kinds (respelling, one/several metrics changed, 3.0/3.1 twin, other version, independent).", "4/C07"),
    "C08": ("Hypothesis + deterministic covering set + interactive answer scripts (Hypothesis and atheris) + library-accepted mutants and one-edit-ball members, emitted after prior accessor calls; the builder's version argument as any number; official vectorString regexes as oracle",
            "Every emitted string (cleaned vector, vector part of RH notation, builder result) is re-parsed by the library and matched (fullmatch) against the vectorString pattern of the pinned FIRST schema of its version; the covering set makes a one-metric ordering error visible regardless of seed.",
            "Official grammar = pattern of the pinned schemas; sampled over optional-metric subsets and answer scripts.", "4/C08"),
    "C09": ("seeded quotient classes with oracle-selected witnesses for every reachable (slot, score value), every third after another object was rated and serialised, pinned band table",
            "For every (version, slot, score value) triple met by an oracle pre-pass a witness vector is pushed through the library: float format, range, None rule, severities() vs the official scale applied to the oracle score, CVSS4.severity and JSON severities agree.",
            "Score values judged against the exact oracles; severity strings compared case-insensitively across exposures.", "4/C09"),
    "C10": ("Hypothesis + covering set + seeded sweep of score-quotient classes + library-accepted mutants / ball members + objects from from_rh_vector, jsonschema validation against pinned FIRST schemas (Decimal-exact)",
            "as_json() for all four (sort, minimal) pairs, after a JSON round trip, validated with the draft each schema declares; two listed known findings are recognised by shape, normalised and the normalised document must validate completely.",
            "Pinned schema copies; additional properties are allowed by the schemas, so differently named v4 fields are unconstrained.", "4/C10"),
    "C11": ("Hypothesis (incl. zero-score-biased generator) + covering set + seeded sweep of score-quotient classes against a model JSON document; library-accepted mutants; documents of copies (copy/deepcopy/pickle) and of from_rh_vector objects",
            "version/vectorString identify the input, every present score/severity equals oracle score/band, every metric field names the effective value (pinned value-name table), sort only orders keys, minimal output is a sub-dictionary that removes only whole undefined temporal/environmental groups.",
            "Value names from the FIRST schemas; v4 field names pinned from the pinned commit.", "4/C11"),
    "C12": ("Hypothesis + atheris coverage-guided RH strings + deterministic sweep of all 101 scores, near-miss floats and score texts below the resolution of a double (exact value of the text as oracle), rh_vector() after other accessor calls, oracle base score",
            "rh_vector() format and round trip; from_rh_vector accepts iff numeric score part, valid vector and exact equality with the oracle base score; error taxonomy (RH-malformed, mismatch, ordinary vector errors); only CVSSnError subclasses escape.",
            "Precedence between a bad score part and a bad vector part is not asserted.", "4/C12"),
    "C13": ("Hypothesis text generator (planted/near-valid/glued/repeated vectors, Unicode special delimiters) + deterministic delimiter sweep + atheris, reference acceptor as oracle",
            "Totality (no exception of any type), soundness (each result built from a substring that the reference acceptor accepts for that version), completeness for planted vectors that occur delimited, pairwise inequality by model key.",
            "Unbounded text space sampled; results compared as sets.", "4/C13"),
    "C14": ("exhaustive score tables through the library + numpy.diff along severity axes; sampled (uniform and macrovector-stratified) mixed-spelling pairs incl. steps of overridden base metrics",
            "Thorough: every pair of vectors one severity step apart in the complete tables (v4: 15,116,544 entries, ~150M pairs; v3 base/temporal/environmental in base and Modified spelling; v2 base/temporal). Quick: seeded classes x all one-step-up neighbours. Oracle is the order relation only.",
            "Severity orders typed from the specifications; v3.0 environmental score exempt for impact and requirement metrics as the statement says.", "4/C14"),
    "C15": ("Hypothesis against model sub-vectors from the reference parser; re-assembly round trip; sweep over every v2/v3 assignment of the mandatory metrics with sub-groups in random shapes; every object asked again after other accessor calls",
            "temporal_vector()/environmental_vector() must equal the model string exactly (each metric once, specification order, input value / ND / X / base value) and base + both sub-vectors must be accepted and score identically.",
            "Sampled over v2/v3 vectors.", "4/C15"),
    "C16": ("model-based Hypothesis test of the dialogue + covering set of every legal value + deterministic long-retry scripts + atheris coverage-guided answer scripts (dialogue model inside the target); answer pool with white space inside legal values and compatibility look-alikes of their letters",
            "Answer scripts (retries, junk, empty, case variants, truncation) are fed to the builder through a counting fake stdin; an independent dialogue model must consume the same number of answers and produce the same vector; the class must accept it; EOF surfaces as EOFError.",
            "Asking order taken from the returned vector (any order accepted); prompts are not asserted.", "4/C16"),
    "C17": ("atheris coverage-guided command lines + Hypothesis-generated command lines (incl. POSIX cluster spellings), in-process main() with patched argv/stdin/stdout (return value = exit status) + real subprocess sample under both launchers, 26 child environments, every environment variable named in the tree under test set to a dozen values, and working directories with a file named like the vector; API differential and dialogue model as oracle",
            "For generated flag sets, vectors (valid, other-version, mutants, arbitrary text) and stdin scripts (complete / truncated): exit status 0, no exception or traceback, report lines parsed by label equal the API's scores, ratings, cleaned and RH vector, -j document equals as_json(sort=True, minimal=True) incl. key order, invalid vector -> the library's message, EOF -> clean end.",
            "Several version flags: any selected version accepted; empty VECTOR read as absent; layout, banners and v2 ratings not asserted.", "4/C17"),
    "C18": ("Hypothesis RuleBasedStateMachine over accessor calls, dict mutations, comparisons with foreign types and continuation on copies, twin-object oracle; one object shared by 2-4 threads under a deterministic settrace scheduler with drawn schedules; an equal object in another spelling and up to 1100 other objects used between two calls",
            "Sequences of accessor calls (all public accessors, every as_json option pair), ==/hash against a twin and mutations of returned dicts; every result must equal what a twin object returned when that accessor was its first call; nothing may raise. Second generator: one object shared by threads whose interleaving (line granularity) is drawn by Hypothesis.",
            "Only observable results compared; sequences up to 30 (quick) / 50 (thorough) steps.", "4/C18"),
    "C19": ("Hypothesis stateful histories vs fresh interpreter processes + global-state snapshots (incl. before-import ambient state); deterministic settrace thread scheduler with drawn schedules (same or different jobs per thread, threads before the sequential reference, aperiodic tails), the same after cache pressure, and a priority (PCT-style) scheduler whose change points lie on lines that touch module-level mutable state; PYTHONHASHSEED sweep; decimal-context sweep vs exact oracles; ddmin with fresh-process judging for history-dependent failures",
            "Histories of API/CLI/interactive calls with a probe set and a deep snapshot of cvss.* module state, decimal context, sys.path and warnings.filters after every step, everything recomputed by a fresh process in another order; 2-4 threads under harness-owned line-level schedules plus a free-running stress; probe corpus under 5 hash seeds; 40 ambient decimal contexts (prec 28..200 x 8 rounding modes) against the exact oracles.",
            "Schedules at line granularity in cvss/*.py frames; decimal sticky flags excluded; lazy stdlib imports warmed up before the first snapshot.", "4/C19"),
    "C20": ("differential execution of a Hypothesis-generated corpus on all 9 installed interpreters + /venv via a py2/py3-common probe; members of every v4 macrovector and seeded v2/v3 score classes, the calculator as a real child process of every interpreter, rejected vectors of mixed encodability, answers made of case-mapping special characters",
            "Every corpus item (constructor inputs valid/invalid incl. Unicode, RH strings, texts, interactive scripts, command lines) is executed under CPython 2.7.18, 3.6.15 ... 3.13.0; import success, accept/reject + error class and message, scores, severities, vectors, JSON content and sorted key order, extraction results, builder results and CLI output must equal the 3.12 reference.",
            "Covers the ten installed interpreters only; argv restricted to printable ASCII; hash() values and unsorted-dict order are not observables.", "4/C20"),
}

PENDING_REASON = "check not built yet in this session (planned, see DESIGN.md section 4); not claimed until its machinery is committed"
ALL = ["C%02d" % i for i in range(1, 21)]


def main():
    checks = []
    for pid in ALL:
        if pid not in CHECKS:
            continue
        if not os.path.exists(os.path.join(HERE, "vf", "props", pid.lower() + ".py")):
            continue
        tech, text, note, ref = CHECKS[pid]
        checks.append({
            "property_id": pid,
            "quick_cmd": "./vcheck %s quick" % pid,
            "thorough_cmd": "./vcheck %s thorough" % pid,
            "evidence_file": "/verif/evidence/%s.json" % pid,
            "replay_cmd_template": "./vcheck %s replay {path}" % pid,
            "engine": "vf",
            "level_claimed": {"category": "exploration", "text": text, "design_ref": "DESIGN.md " + ref},
            "level_note": note,
            "technique": tech + ("" if pid == "C20" else "; a seeded sample of the executed cases is re-run by the same check functions in child interpreters with PYTHONOPTIMIZE=1 (thorough: also 2), with -bb, after reloading every module of the package twice, under host-application settings (logging at DEBUG, import-time decimal context made coarse, signal flags set, DefaultContext edited), on the pure-Python decimal module and in Python Development Mode"),
        })
    claimed = set(c["property_id"] for c in checks)
    man = {
        "version": 1,
        "setup_cmd": "./vcheck setup",
        "hooks": {
            "guard": "CVSS_VERIF",
            "enable": "no hooks: every observation uses the public API, sys.stdin/stdout/argv, sys.settrace and subprocesses; checks import the working tree at $VERIF_REPO (default /repo) directly, nothing is built",
            "baseline_off_cmd": "cd /repo && /venv/bin/python -m pytest -ra -q -p no:cacheprovider --timeout=900 --continue-on-collection-errors",
            "source_commits": [],
            "add_only": True,
        },
        "engines": [{
            "name": "vf", "path": "/verif/vf",
            "serves_properties": sorted(claimed),
            "kind_free_text": "property-based testing and fuzzing: Hypothesis (stateless + stateful), exhaustive quotient enumerators on multiprocessing.Pool(16), atheris coverage-guided fuzzing, deterministic settrace thread scheduler, differential execution on 10 interpreters; explicit independent oracles (exact Fraction equations, reference grammar, FIRST JSON schemas)",
        }],
        "checks": checks,
        "not_applicable": [{"property_id": p, "reason": PENDING_REASON} for p in ALL if p not in claimed],
        "notes": "All checks: exit 0 held / 1 VIOLATION property=<id> replay=<path> / 2 harness problem or inconclusive. VERIF_SEED selects the pseudo-random part of every generator; VERIF_REPO (default /repo) selects the tree under test. Known findings: /verif/known_findings.txt.",
    }
    with open(os.path.join(HERE, "MANIFEST.json"), "w") as f:
        json.dump(man, f, indent=1)
        f.write("\n")
    print("claimed:", sorted(claimed))


if __name__ == "__main__":
    main()
