#!/venv/bin/python
# -*- coding: utf-8 -*-
"""
Systematic mutation sweep (sensitivity evidence that nobody hand-picked).

    tools/mutsweep.py [--files a.py,b.py] [--every K] [--offset O] [--jobs J] [--out FILE] [--limit N]

Every syntactic mutation site of cvss/*.py found with `ast` (comparison operators, and/or, not, arithmetic operators,
min/max, numeric constants, short string constants, conditions forced true/false, single statements deleted) gives one
mutant: a scratch copy of the tree under test (outside /repo and /verif) with exactly that edit.  A mutant that does
not compile or that one of the 34 baseline tests kills is dropped ("not realistic").  Against the others the QUICK
commands of the checks that look at that file run, in a fixed order, until one exits 1 with a VIOLATION line; a mutant
no listed check catches is then offered to the remaining checks.  Survivors are written out with their diff: each is
either an equivalent mutant (the property still holds) or a blind spot.
Nothing here is a registered check; the sweep measures the registered checks.
"""
from __future__ import print_function

import ast
import difflib
import json
import os
import re
import shutil
import subprocess
import sys
import tempfile
import time
from concurrent.futures import ThreadPoolExecutor

HOME = os.path.dirname(os.path.dirname(os.path.abspath(__file__)))
ORIG = os.path.abspath(os.environ.get("VERIF_SELFTEST_BASE", "/repo"))
VCHECK = os.path.join(HOME, "vcheck")
ALL = ["C%02d" % i for i in range(1, 21)]
ORDER = {
    "cvss2.py": ["C03", "C04", "C15", "C11", "C12", "C05", "C07", "C09", "C10", "C06", "C18", "C14"],
    "cvss3.py": ["C01", "C04", "C15", "C11", "C12", "C05", "C07", "C09", "C10", "C06", "C18", "C14"],
    "cvss4.py": ["C02", "C04", "C08", "C11", "C12", "C05", "C07", "C09", "C10", "C06", "C18", "C14"],
    "constants2.py": ["C03", "C11", "C16", "C04", "C15", "C10"],
    "constants3.py": ["C01", "C11", "C16", "C04", "C15", "C10"],
    "constants4.py": ["C02", "C11", "C16", "C04", "C08", "C10", "C14"],
    "parser.py": ["C13", "C20", "C19"],
    "interactive.py": ["C16", "C08", "C17", "C20"],
    "cvss_calculator.py": ["C17", "C20"],
    "exceptions.py": ["C04", "C12", "C13", "C17"],
    "__init__.py": ["C20", "C17", "C13"],
}
CMP = {ast.Eq: "!=", ast.NotEq: "==", ast.Lt: "<=", ast.LtE: "<", ast.Gt: ">=", ast.GtE: ">", ast.In: "not in", ast.NotIn: "in",
       ast.Is: "is not", ast.IsNot: "is"}
CMP_TXT = {ast.Eq: "==", ast.NotEq: "!=", ast.Lt: "<", ast.LtE: "<=", ast.Gt: ">", ast.GtE: ">=", ast.In: "in", ast.NotIn: "not in",
           ast.Is: "is", ast.IsNot: "is not"}
BIN = {ast.Add: ("+", "-"), ast.Sub: ("-", "+"), ast.Mult: ("*", "/"), ast.Div: ("/", "*")}


def offsets(src):
    lines = src.split("\n")
    starts = [0]
    for ln in lines:
        starts.append(starts[-1] + len(ln.encode("utf-8")) + 1)
    return starts


class Sites(ast.NodeVisitor):
    def __init__(self, src):
        self.b = src.encode("utf-8")
        self.st = offsets(src)
        self.out = []          # (start, end, replacement, kind)
        self.doc = set()

    def pos(self, node):
        return self.st[node.lineno - 1] + node.col_offset, self.st[node.end_lineno - 1] + node.end_col_offset

    def between(self, a_end, b_start, old, new, kind):
        seg = self.b[a_end:b_start].decode("utf-8")
        m = re.search(r"(?<![=!<>*/+-])" + re.escape(old) + r"(?![=<>*/])", seg) if not old[0].isalpha() else re.search(r"\b" + old.replace(" ", r"\s+") + r"\b", seg)
        if m:
            s = a_end + len(seg[:m.start()].encode("utf-8"))
            self.out.append((s, s + len(m.group(0).encode("utf-8")), new, kind))

    def visit_Compare(self, n):
        left = n.left
        for op, right in zip(n.ops, n.comparators):
            if type(op) in CMP:
                self.between(self.pos(left)[1], self.pos(right)[0], CMP_TXT[type(op)], CMP[type(op)], "cmp")
            left = right
        self.generic_visit(n)

    def visit_BoolOp(self, n):
        old, new = ("and", "or") if isinstance(n.op, ast.And) else ("or", "and")
        for a, b in zip(n.values, n.values[1:]):
            self.between(self.pos(a)[1], self.pos(b)[0], old, new, "bool")
        self.generic_visit(n)

    def visit_UnaryOp(self, n):
        if isinstance(n.op, ast.Not):
            s, e = self.pos(n)
            os_, oe = self.pos(n.operand)
            self.out.append((s, e, "(" + self.b[os_:oe].decode("utf-8") + ")", "not"))
        self.generic_visit(n)

    def visit_BinOp(self, n):
        if type(n.op) in BIN and not (isinstance(n.left, ast.Constant) and isinstance(n.left.value, str)):
            old, new = BIN[type(n.op)]
            self.between(self.pos(n.left)[1], self.pos(n.right)[0], old, new, "arith")
        self.generic_visit(n)

    def visit_Call(self, n):
        if isinstance(n.func, ast.Name) and n.func.id in ("min", "max", "any", "all"):
            s, e = self.pos(n.func)
            self.out.append((s, e, {"min": "max", "max": "min", "any": "all", "all": "any"}[n.func.id], "fn"))
        self.generic_visit(n)

    def visit_Constant(self, n):
        s, e = self.pos(n)
        if (s, e) in self.doc:
            return
        v = n.value
        if isinstance(v, bool) or v is None:
            if isinstance(v, bool):
                self.out.append((s, e, str(not v), "const"))
        elif isinstance(v, int):
            self.out.append((s, e, str(v + 1), "const"))
        elif isinstance(v, float):
            self.out.append((s, e, repr(v + 0.1), "const"))
        elif isinstance(v, str) and 0 < len(v) <= 6 and "\n" not in v:
            txt = self.b[s:e].decode("utf-8")
            if txt[:1] in "\"'" and len(txt) == len(v) + 2:
                if re.match(r"^-?\d+(\.\d+)?$", v):
                    w = v[:-1] + str((int(v[-1]) + 1) % 10)            # weights and thresholds written as Decimal strings
                else:
                    w = v[:-1] + ("Y" if v[-1] != "Y" else "Z")
                self.out.append((s, e, txt[0] + w + txt[0], "str"))

    def visit_If(self, n):
        s, e = self.pos(n.test)
        self.out.append((s, e, "True", "if"))
        self.out.append((s, e, "False", "if"))
        self.generic_visit(n)

    def stmt(self, n):
        s, e = self.pos(n)
        self.out.append((s, e, "pass", "del"))

    def visit_Expr(self, n):
        if isinstance(n.value, ast.Constant) and isinstance(n.value.value, str):
            self.doc.add(self.pos(n.value))            # docstring
            return
        self.stmt(n)
        self.generic_visit(n)

    def visit_Assign(self, n):
        if n.col_offset > 0:
            self.stmt(n)
        self.generic_visit(n)

    def visit_AugAssign(self, n):
        self.stmt(n)
        self.generic_visit(n)

    def visit_Raise(self, n):
        self.stmt(n)
        # messages of exceptions are not mutated


def sites_of(path):
    with open(path, encoding="utf-8") as f:
        src = f.read()
    v = Sites(src)
    v.visit(ast.parse(src))
    seen, out = set(), []
    for s in sorted(v.out):
        if s not in seen:
            seen.add(s)
            out.append(s)
    return src, out


def baseline_ids():
    with open("/root/.vp/BASELINE.json") as f:
        b = json.load(f)
    out = []
    for t in b["stable_pass"]:
        mod, rest = t.split("::", 1)
        parts = mod.split(".")
        out.append("/".join(parts[:-1]) + ".py::" + parts[-1] + "::" + rest)
    return out


def make_copy():
    d = tempfile.mkdtemp(prefix="vfsweep")
    for name in ("cvss", "tests"):
        shutil.copytree(os.path.join(ORIG, name), os.path.join(d, name), ignore=shutil.ignore_patterns("__pycache__", "*.pyc"))
    return d


def run_one(job):
    fname, idx, (s, e, new, kind), src = job
    b = src.encode("utf-8")
    mutated = (b[:s] + new.encode("utf-8") + b[e:]).decode("utf-8")
    diff = "".join(difflib.unified_diff(src.splitlines(True), mutated.splitlines(True), "a/cvss/" + fname, "b/cvss/" + fname, n=1))
    res = {"file": fname, "index": idx, "kind": kind, "diff": diff}
    try:
        compile(mutated, fname, "exec")
    except SyntaxError:
        res["verdict"] = "does-not-compile"
        return res
    d = make_copy()
    t0 = time.time()
    try:
        with open(os.path.join(d, "cvss", fname), "w", encoding="utf-8") as f:
            f.write(mutated)
        env = dict(os.environ, PYTHONPATH=d, PYTHONDONTWRITEBYTECODE="1")
        p = subprocess.run(["/venv/bin/python", "-m", "pytest", "-q", "-p", "no:cacheprovider", "-x", "--timeout=120"] + baseline_ids(),
                           cwd=d, stdout=subprocess.PIPE, stderr=subprocess.STDOUT, env=env)
        if p.returncode != 0:
            res["verdict"] = "killed-by-baseline-tests"
            return res
        first = ORDER.get(fname, [])
        tried = {}
        for pid in first + [x for x in ALL if x not in first]:
            env = dict(os.environ, VERIF_REPO=d, VERIF_OUT=os.path.join(d, "_out"))
            p = subprocess.run([VCHECK, pid, "quick"], stdout=subprocess.PIPE, stderr=subprocess.STDOUT, env=env, cwd=HOME)
            text = p.stdout.decode("utf-8", "replace")
            tried[pid] = p.returncode
            if p.returncode == 1 and "VIOLATION property=%s" % pid in text:
                res["verdict"] = "caught"
                res["caught_by"] = pid
                res["after"] = len(tried)
                break
            if p.returncode == 2:
                res.setdefault("harness", {})[pid] = text[-300:]
        else:
            res["verdict"] = "SURVIVED"
        res["tried"] = tried
    finally:
        shutil.rmtree(d, ignore_errors=True)
    res["wall_s"] = round(time.time() - t0, 1)
    return res


def main(argv):
    files, every, offset, jobs, out, limit = None, 1, 0, 2, os.path.join(HOME, "mutsweep_results.jsonl"), None
    it = iter(argv)
    for a in it:
        if a == "--files":
            files = next(it).split(",")
        elif a == "--every":
            every = int(next(it))
        elif a == "--offset":
            offset = int(next(it))
        elif a == "--jobs":
            jobs = int(next(it))
        elif a == "--out":
            out = next(it)
        elif a == "--limit":
            limit = int(next(it))
        elif a == "--count":
            for fname in sorted(os.listdir(os.path.join(ORIG, "cvss"))):
                if fname.endswith(".py"):
                    _, ss = sites_of(os.path.join(ORIG, "cvss", fname))
                    kinds = {}
                    for x in ss:
                        kinds[x[3]] = kinds.get(x[3], 0) + 1
                    print(fname, len(ss), kinds)
            return 0
    todo = []
    for fname in sorted(os.listdir(os.path.join(ORIG, "cvss"))):
        if not fname.endswith(".py") or (files and fname not in files):
            continue
        src, ss = sites_of(os.path.join(ORIG, "cvss", fname))
        for i, site in enumerate(ss):
            if i % every == offset % every:
                todo.append((fname, i, site, src))
    if limit:
        todo = todo[:limit]
    print("mutants to try:", len(todo), file=sys.stderr)
    counts = {}
    with open(out, "a") as f, ThreadPoolExecutor(jobs) as ex:
        for res in ex.map(run_one, todo):
            counts[res["verdict"]] = counts.get(res["verdict"], 0) + 1
            f.write(json.dumps(res, sort_keys=True) + "\n")
            f.flush()
            print("%-18s #%-4d %-5s %-26s %s" % (res["file"], res["index"], res["kind"], res["verdict"], res.get("caught_by", "")), file=sys.stderr)
    print(json.dumps(counts, sort_keys=True))
    return 0


if __name__ == "__main__":
    sys.exit(main(sys.argv[1:]))
