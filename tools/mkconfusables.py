#!/usr/bin/env python3
"""
Generates vf/spec_data/confusables.json: for every ASCII character that occurs in CVSS vectors, the non-ASCII code
points that some Unicode-aware operation of Python turns into it (NFKC/NFKD normalisation, upper/lower/casefold,
int()/str.isdigit()/unicodedata.digit, \\d and \\w classes).  These are the characters with which a parser that is
"almost" ASCII-strict can be told apart from one that is.  Pinned output of CPython 3.12's Unicode tables.
"""
import json, os, sys, unicodedata
TARGETS = "0123456789ABCDEFGHIJKLMNOPQRSTUVWXYZabcdefghijklmnopqrstuvwxyz:/. "
out = {a: {} for a in TARGETS}
for cp in range(128, sys.maxunicode + 1):
    c = chr(cp)
    if 0xD800 <= cp <= 0xDFFF:
        continue
    kinds = {}
    for form in ("NFKC", "NFKD"):
        n = unicodedata.normalize(form, c)
        if len(n) == 1 and n in out:
            kinds.setdefault(n, set()).add(form)
    for name, f in (("upper", str.upper), ("lower", str.lower), ("casefold", str.casefold)):
        r = f(c)
        if len(r) == 1 and ord(r) < 128 and r in out:
            kinds.setdefault(r, set()).add(name)
            # the other case of the same ASCII letter is reachable too
    if c.isdigit() or c.isdecimal():
        try:
            d = unicodedata.digit(c)
            kinds.setdefault(str(d), set()).add("decimal" if c.isdecimal() else "digit")
        except ValueError:
            pass
    if c.isspace():
        kinds.setdefault(" ", set()).add("space")
    for a, ks in kinds.items():
        for k in ks:
            out[a].setdefault(k, []).append(c)
final = {}
for a, byk in out.items():
    chosen = []
    for k in sorted(byk):
        lst = byk[k]
        # first, middle and last representatives of every kind (different scripts / planes)
        picks = lst[:3] + lst[len(lst) // 2: len(lst) // 2 + 2] + lst[-2:]
        for c in picks:
            if c not in chosen:
                chosen.append(c)
    if chosen:
        final[a] = chosen[:24]
path = os.path.join(os.path.dirname(os.path.dirname(os.path.abspath(__file__))), "vf", "spec_data", "confusables.json")
json.dump(final, open(path, "w"), ensure_ascii=True, indent=0, sort_keys=True)
print({a: len(v) for a, v in final.items()})
