#!/venv/bin/python
# -*- coding: utf-8 -*-
"""
Intake of changes written by independent sub-agents.

    tools/intake.py <round> <dir-with-Cnn-X-subdirectories>

For every sub-directory holding patch.diff + demo.py (+ needs.txt) a directory /verif/seeded/<round>-<Cnn>-<X>/ is
created with a preliminary meta.json (property, checks = [property], tiers = [quick]).  Nothing is judged here:
`./vcheck selftest --seeded <round>-` then applies each patch to a scratch copy, runs the baseline tests, the
demonstration both ways and the named checks.
"""
import json
import os
import re
import shutil
import sys

HOME = os.path.dirname(os.path.dirname(os.path.abspath(__file__)))


def main(rnd, src):
    n = 0
    for name in sorted(os.listdir(src)):
        m = re.match(r"(C\d\d)-([A-Z])$", name)
        d = os.path.join(src, name)
        if not m or not os.path.exists(os.path.join(d, "patch.diff")) or not os.path.exists(os.path.join(d, "demo.py")):
            continue
        if os.path.getsize(os.path.join(d, "patch.diff")) == 0:
            continue
        target = os.path.join(HOME, "seeded", "%s-%s-%s" % (rnd, m.group(1), m.group(2)))
        if os.path.exists(target):
            continue
        os.makedirs(target)
        for f in ("patch.diff", "demo.py"):
            shutil.copy(os.path.join(d, f), os.path.join(target, f))
        needs = ""
        if os.path.exists(os.path.join(d, "needs.txt")):
            with open(os.path.join(d, "needs.txt")) as f:
                needs = " ".join(f.read().split())
        meta = {"property": m.group(1), "checks": [m.group(1)], "tiers": ["quick"], "needs": needs,
                "source": "independent sub-agent, round %s: the property text and a scratch worktree, nothing from /verif" % rnd,
                "verified": []}
        with open(os.path.join(target, "meta.json"), "w") as f:
            json.dump(meta, f, indent=1, sort_keys=True)
        n += 1
        print("took", target)
    print(n, "new")


if __name__ == "__main__":
    main(sys.argv[1], sys.argv[2])
